/* One instantiation of the real hashtable.h macros; compiled 36 times with -DT_ORDER=2..13 -DT_TYPE=0..2. */
#include <stdint.h>
#include <stddef.h>
#include <string.h>
#include "hashtable.h"
#include "c17_ops.h"

#define CAT_(a, b, c, d) a##b##c##d
#define CAT(a, b, c, d) CAT_(a, b, c, d)

#if T_TYPE == 0
DECLARE_HASHTABLE_STRING(T, T_ORDER, 1)
typedef const char *keyt;
typedef struct hashtable_string entry_t;
#define HASHF(k) hash_func_T_string(k)
#define TOKEY(u) ((const char *)(uintptr_t)(u))
#define FROMKEY(k) ((uint64_t)(uintptr_t)(k))
#elif T_TYPE == 1
DECLARE_HASHTABLE_UINT32(T, T_ORDER, 1)
typedef uint32_t keyt;
typedef struct hashtable_uint32_t entry_t;
#define HASHF(k) hash_func_T_uint32_t(k)
#define TOKEY(u) ((uint32_t)(u))
#define FROMKEY(k) ((uint64_t)(k))
#else
DECLARE_HASHTABLE_UINT64(T, T_ORDER, 1)
typedef uint64_t keyt;
typedef struct hashtable_uint64_t entry_t;
#define HASHF(k) hash_func_T_uint64_t(k)
#define TOKEY(u) ((uint64_t)(u))
#define FROMKEY(k) ((uint64_t)(k))
#endif

static void *t_create(void) { return HASHTABLE_CREATE(T); }
static void t_destroy(void *t) { entry_t *tt = (entry_t *)t; HASHTABLE_DELETE(T, tt); }
static int t_put(void *t, uint64_t key, void *value, void **prev, int want_prev)
{
	struct value_T v, p;
	v.vals[0] = value;
	int r = HASHTABLE_PUT(T, (entry_t *)t, TOKEY(key), v, want_prev ? &p : NULL);
	if (want_prev && prev) *prev = p.vals[0];
	return r;
}
static int t_get(void *t, uint64_t key, void **value)
{
	struct value_T v; v.vals[0] = NULL;
	int r = HASHTABLE_GET(T, (entry_t *)t, TOKEY(key), &v);
	if (value) *value = v.vals[0];
	return r;
}
static int t_remove(void *t, uint64_t key, void **value, int want_value)
{
	struct value_T v; v.vals[0] = NULL;
	int r = HASHTABLE_REMOVE(T, (entry_t *)t, TOKEY(key), want_value ? &v : NULL);
	if (want_value && value) *value = v.vals[0];
	return r;
}
static uint32_t t_home(uint64_t key) { return HASHF(TOKEY(key)); }
static int t_slot_used(void *t, uint32_t i) { return ((entry_t *)t)[i].key != (keyt)HASHTABLE_INVALIDENTRY; }
static uint64_t t_slot_key(void *t, uint32_t i) { return FROMKEY(((entry_t *)t)[i].key); }
static uint32_t t_slot_hop(void *t, uint32_t i) { return ((entry_t *)t)[i].hop_info; }
static void *t_slot_value(void *t, uint32_t i) { return ((entry_t *)t)[i].value.vals[0]; }

const struct ht_ops CAT(ht_ops_, T_TYPE, _, T_ORDER) = {
	T_ORDER, T_TYPE, sizeof(entry_t), t_create, t_destroy, t_put, t_get, t_remove, t_home, t_slot_used, t_slot_key, t_slot_hop, t_slot_value,
};
