/* Compiled at check time against /repo/src/utf8_checker.h: the only place that knows the struct layout. */
#include "utf8_checker.h"
#include <string.h>

size_t shim_state_size(void) { return sizeof(struct cjet_utf8_checker); }
void shim_init(void *c) { cjet_init_checker((struct cjet_utf8_checker *)c); }
/* canonical 3-byte image of the state, independent of padding */
void shim_image(const void *c, unsigned char out[3])
{
	const struct cjet_utf8_checker *k = (const struct cjet_utf8_checker *)c;
	out[0] = k->start_byte; out[1] = k->length; out[2] = k->next_byte;
}
int shim_text(void *c, const char *t, size_t n, int complete) { return cjet_is_text_valid((struct cjet_utf8_checker *)c, t, n, complete); }
int shim_bytes(void *c, const unsigned char *t, size_t n, int complete) { return cjet_is_byte_sequence_valid((struct cjet_utf8_checker *)c, t, n, complete); }
int shim_words(void *c, const uint32_t *t, size_t n, int complete) { return cjet_is_word_sequence_valid((struct cjet_utf8_checker *)c, t, n, complete); }
int shim_words64(void *c, const uint64_t *t, size_t n, int complete) { return cjet_is_word64_sequence_valid((struct cjet_utf8_checker *)c, t, n, complete); }
int shim_auto(void *c, const void *t, size_t n, int complete) { return cjet_is_word_sequence_valid_auto_alligned((struct cjet_utf8_checker *)c, t, n, complete); }
