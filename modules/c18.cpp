// C18 — UTF-8 validator accepts exactly well-formed UTF-8, however the text is presented.
// Reference: an independent RFC 3629 automaton. Engines: exhaustive product BFS, exhaustive 2^32 words,
// class-representative 64-bit words, rapidcheck strings over every entry point / split / alignment.
#include "../fw/deadline.hpp"
#include "../fw/json.hpp"
#include "../fw/scenario.hpp"
#include <rapidcheck.h>
#include <chrono>
#include <cstring>
#include <fstream>
#include <map>
#include <set>
#include <sstream>
#include <thread>
#include <atomic>
#include <vector>

extern "C" {
size_t shim_state_size(void);
void shim_init(void *c);
void shim_image(const void *c, unsigned char out[3]);
int shim_text(void *c, const char *t, size_t n, int complete);
int shim_bytes(void *c, const unsigned char *t, size_t n, int complete);
int shim_words(void *c, const uint32_t *t, size_t n, int complete);
int shim_words64(void *c, const uint64_t *t, size_t n, int complete);
int shim_auto(void *c, const void *t, size_t n, int complete);
}

// ---- reference automaton (RFC 3629 / Unicode table 3-7): state = how many continuation bytes are due and the range of the next one
struct Ref {
	int due = 0; unsigned char lo = 0x80, hi = 0xBF;
	bool operator<(const Ref &o) const { return std::tie(due, lo, hi) < std::tie(o.due, o.lo, o.hi); }
	bool start() const { return due == 0; }
	// returns false if the byte makes the text ill-formed (state is reset to start, as the validator does)
	bool step(unsigned char b)
	{
		if (due == 0) {
			if (b <= 0x7F) return true;
			if (b >= 0xC2 && b <= 0xDF) { due = 1; lo = 0x80; hi = 0xBF; return true; }
			if (b == 0xE0) { due = 2; lo = 0xA0; hi = 0xBF; return true; }
			if ((b >= 0xE1 && b <= 0xEC) || b == 0xEE || b == 0xEF) { due = 2; lo = 0x80; hi = 0xBF; return true; }
			if (b == 0xED) { due = 2; lo = 0x80; hi = 0x9F; return true; }
			if (b == 0xF0) { due = 3; lo = 0x90; hi = 0xBF; return true; }
			if (b >= 0xF1 && b <= 0xF3) { due = 3; lo = 0x80; hi = 0xBF; return true; }
			if (b == 0xF4) { due = 3; lo = 0x80; hi = 0x8F; return true; }
			return false;
		}
		if (b < lo || b > hi) { *this = Ref(); return false; }
		due--; lo = 0x80; hi = 0xBF;
		return true;
	}
};

static bool ref_valid(const unsigned char *p, size_t n, bool complete, Ref *state = nullptr)
{
	Ref r; if (state) r = *state;
	for (size_t i = 0; i < n; i++) if (!r.step(p[i])) { if (state) *state = Ref(); return false; }
	if (state) *state = r;
	if (complete && !r.start()) { if (state) *state = Ref(); return false; }
	return true;
}

struct Img { unsigned char b[3]; bool operator<(const Img &o) const { return memcmp(b, o.b, 3) < 0; } };
struct State { std::vector<unsigned char> raw; };

static std::string hex(const unsigned char *p, size_t n) { return scen::tohex(std::string((const char *)p, n)); }

struct Result {
	long evaluations = 0, nontrivial = 0;
	std::vector<js::Value> violations, samples;
	std::map<std::string, long> labels;
	bool exhaustive_ok = true;
	void fail(const std::string &what, const std::string &entry, const std::string &hexbytes, int align, const std::string &split)
	{
		if (violations.size() >= 5) return;
		js::Value v = js::Value::obj();
		v.set("signature", js::Value::str("C18/" + what)); v.set("detail", js::Value::str(entry + " bytes=" + hexbytes + " align=" + std::to_string(align) + " split=" + split));
		js::Value rp = js::Value::obj(); rp.set("entry", js::Value::str(entry)); rp.set("hex", js::Value::str(hexbytes)); rp.set("align", js::Value::num(align)); rp.set("split", js::Value::str(split));
		v.set("replay_case", rp);
		violations.push_back(v);
	}
};

// pairs of (validator state image, reference state) that the byte-wise product automaton reaches
static std::set<std::pair<Img, Ref>> g_pairs;

static Img image_of(const void *c) { Img i; shim_image(c, i.b); return i; }

static void product_bfs(Result &res)
{
	size_t sz = shim_state_size();
	std::vector<std::pair<std::vector<unsigned char>, Ref>> work;
	std::vector<unsigned char> init(sz, 0);
	shim_init(init.data());
	work.push_back({init, Ref()});
	g_pairs.insert({image_of(init.data()), Ref()});
	size_t head = 0;
	while (head < work.size()) {
		auto cur = work[head++];
		// completeness verdict in this state
		{
			std::vector<unsigned char> c = cur.first;
			int v = shim_bytes(c.data(), (const unsigned char *)"", 0, 1);
			res.evaluations++;
			if ((v != 0) != cur.second.start()) res.fail("complete-verdict", "byte", "", 0, "state " + hex(image_of(cur.first.data()).b, 3));
		}
		for (int b = 0; b < 256; b++) {
			std::vector<unsigned char> c = cur.first;
			Ref r = cur.second;
			unsigned char byte = (unsigned char)b;
			int v = shim_bytes(c.data(), &byte, 1, 0);
			bool rv = r.step(byte);
			res.evaluations++;
			if (b >= 0x80) res.nontrivial++;
			if ((v != 0) != rv) { res.fail("bytewise-verdict", "byte", hex(&byte, 1), 0, "state " + hex(image_of(cur.first.data()).b, 3)); continue; }
			auto key = std::make_pair(image_of(c.data()), r);
			if (g_pairs.insert(key).second) work.push_back({c, r});
		}
	}
	// the relation must be a bijection on what matters: one validator image <-> one reference state
	std::map<Img, Ref> fwd;
	for (auto &p : g_pairs) { auto it = fwd.find(p.first); if (it != fwd.end() && (it->second < p.second || p.second < it->second)) res.fail("state-ambiguity", "byte", "", 0, hex(p.first.b, 3)); fwd[p.first] = p.second; }
	res.labels["product_states"] = (long)g_pairs.size();
}

static void check_word32(uint32_t w, Result &res)
{
	unsigned char st[16]; shim_init(st);
	unsigned char bytes[4]; memcpy(bytes, &w, 4);
	for (int complete = 0; complete <= 1; complete++) {
		shim_init(st);
		Ref r;
		int v = shim_words(st, &w, 1, complete);
		bool rv = ref_valid(bytes, 4, complete, &r);
		if ((v != 0) != rv) { res.fail("word32-verdict", complete ? "word/complete" : "word", hex(bytes, 4), 0, ""); return; }
		if (rv && !g_pairs.count({image_of(st), r})) { res.fail("word32-state", "word", hex(bytes, 4), 0, "state after word " + hex(image_of(st).b, 3)); return; }
	}
}

static void check_word64(uint64_t w, Result &res)
{
	unsigned char st[16];
	unsigned char bytes[8]; memcpy(bytes, &w, 8);
	for (int complete = 0; complete <= 1; complete++) {
		shim_init(st);
		Ref r;
		int v = shim_words64(st, &w, 1, complete);
		bool rv = ref_valid(bytes, 8, complete, &r);
		if ((v != 0) != rv) { res.fail("word64-verdict", complete ? "word64/complete" : "word64", hex(bytes, 8), 0, ""); return; }
		if (rv && !g_pairs.count({image_of(st), r})) { res.fail("word64-state", "word64", hex(bytes, 8), 0, "state after word"); return; }
	}
}

// one string through every entry point, a given split and alignment
static bool check_string(const std::string &s, int align, const std::vector<size_t> &cuts, bool complete, Result &res, bool record = true)
{
	const unsigned char *p = (const unsigned char *)s.data();
	bool want = ref_valid(p, s.size(), complete);
	std::vector<uint64_t> store((s.size() + 32) / 8 + 2), store2((s.size() + 32) / 8 + 2);
	unsigned char *base = (unsigned char *)store.data();
	unsigned char *base2 = (unsigned char *)store2.data(); // word-aligned copy for the word entry points
	unsigned char st[16];
	bool ok = true;
	auto bad = [&](const char *entry) { ok = false; if (record) { std::string sp; for (auto c : cuts) sp += std::to_string(c) + ","; res.fail("verdict", entry, hex(p, s.size()), align, sp); } };
	// whole, every entry point
	unsigned char *buf = base + (align & 7);
	memcpy(buf, p, s.size());
	shim_init(st); if ((shim_bytes(st, buf, s.size(), complete) != 0) != want) bad("bytes");
	shim_init(st); if ((shim_text(st, (const char *)buf, s.size(), complete) != 0) != want) bad("text");
	shim_init(st); if ((shim_auto(st, buf, s.size(), complete) != 0) != want) bad("auto_alligned");
	if (s.size() % 4 == 0) { unsigned char *b4 = base2; memcpy(b4, p, s.size()); shim_init(st); if ((shim_words(st, (const uint32_t *)b4, s.size() / 4, complete) != 0) != want) bad("word"); }
	if (s.size() % 8 == 0) { unsigned char *b8 = base2; memcpy(b8, p, s.size()); shim_init(st); if ((shim_words64(st, (const uint64_t *)b8, s.size() / 8, complete) != 0) != want) bad("word64"); }
	// chunked: the same checker across calls, chunks through bytes / auto-aligned alternately
	{
		shim_init(st);
		size_t pos = 0; bool verdict = true; size_t idx = 0;
		std::vector<size_t> cc = cuts; cc.push_back(s.size());
		for (size_t c : cc) {
			if (c > s.size()) c = s.size();
			if (c < pos) continue;
			bool last = c == s.size();
			int v = (idx++ % 2) ? shim_auto(st, buf + pos, c - pos, last && complete) : shim_bytes(st, buf + pos, c - pos, last && complete);
			if (!v) { verdict = false; break; }
			pos = c;
			if (last) break;
		}
		if (verdict != want) bad("chunked");
	}
	return ok;
}

static std::string read_file(const std::string &path) { std::ifstream f(path, std::ios::binary); std::stringstream ss; ss << f.rdbuf(); return ss.str(); }

int main(int argc, char **argv)
{
	std::string out, replay, mode = "quick"; long cases = 20000; unsigned long seed = 1; int size = 60;
	for (int i = 1; i < argc; i++) {
		std::string a = argv[i];
		auto next = [&]() { return i + 1 < argc ? std::string(argv[++i]) : std::string(); };
		if (a == "--out") out = next(); else if (a == "--replay") replay = next(); else if (a == "--cases") cases = atol(next().c_str());
		else if (a == "--seed") seed = strtoul(next().c_str(), nullptr, 10); else if (a == "--size") size = atoi(next().c_str()); else if (a == "--mode") mode = next(); else if (a == "--variant") next();
	}
	auto t0 = std::chrono::steady_clock::now();
	Result res;
	product_bfs(res);
	if (!replay.empty()) {
		js::Value v; js::parse(read_file(replay), v);
		const js::Value *rc = v.get("replay_case") ? v.get("replay_case") : &v;
		std::string bytes = scen::fromhex(rc->get("hex") ? rc->get("hex")->s : "");
		std::string entry = rc->get("entry") ? rc->get("entry")->s : "";
		int align = rc->get("align") ? (int)rc->get("align")->d : 0;
		if (entry.compare(0, 6, "word64") == 0 && bytes.size() == 8) { uint64_t w; memcpy(&w, bytes.data(), 8); check_word64(w, res); }
		else if (entry.compare(0, 4, "word") == 0 && bytes.size() == 4) { uint32_t w; memcpy(&w, bytes.data(), 4); check_word32(w, res); }
		for (int c = 0; c <= 1; c++) for (int al = 0; al < 8; al++) { (void)align; check_string(bytes, al, {bytes.size() / 2}, c, res); }
		for (auto &x : res.violations) printf("FAIL %s: %s\n", x.get("signature")->s.c_str(), x.get("detail")->s.c_str());
		if (res.violations.empty()) printf("PASS replay %s\n", replay.c_str());
		return res.violations.empty() ? 0 : 1;
	}
	if (mode == "words32") {
		// exhaustive: all 2^32 words from the initial state, split over threads
		unsigned nt = std::thread::hardware_concurrency(); if (nt == 0) nt = 8;
		std::vector<Result> parts(nt);
		std::vector<std::thread> th;
		uint64_t lo = (uint64_t)(cases > 0 && cases < 4096 ? 0 : 0);
		(void)lo;
		for (unsigned t = 0; t < nt; t++) th.emplace_back([&, t]() {
			uint64_t from = ((uint64_t)1 << 32) * t / nt, to = ((uint64_t)1 << 32) * (t + 1) / nt;
			for (uint64_t w = from; w < to; w++) { check_word32((uint32_t)w, parts[t]); if (!parts[t].violations.empty()) break; }
			parts[t].evaluations = (long)(to - from);
		});
		for (auto &x : th) x.join();
		for (auto &p : parts) { res.evaluations += p.evaluations; for (auto &v : p.violations) if (res.violations.size() < 5) res.violations.push_back(v); }
		res.nontrivial += (long)(((uint64_t)1 << 32) - ((uint64_t)1 << 28));
		res.labels["words32_exhaustive"] = 1;
	} else if (mode == "words64") {
		// 8^8 class-representative words + seeded random words
		static const unsigned char reps[8] = {0x41, 0x80, 0xBF, 0xC0, 0xC1, 0xC2, 0xDF, 0xE1};
		unsigned nt = std::thread::hardware_concurrency(); if (nt == 0) nt = 8;
		std::vector<Result> parts(nt);
		std::vector<std::thread> th;
		for (unsigned t = 0; t < nt; t++) th.emplace_back([&, t]() {
			for (uint32_t i = t; i < (1u << 24); i += nt) {
				unsigned char b[8]; for (int k = 0; k < 8; k++) b[k] = reps[(i >> (3 * k)) & 7];
				uint64_t w; memcpy(&w, b, 8); check_word64(w, parts[t]); parts[t].evaluations++;
				if (!parts[t].violations.empty()) return;
			}
			uint64_t x = seed * 0x9E3779B97F4A7C15ull + t * 0xD1B54A32D192ED03ull + 1;
			for (long i = 0; i < cases; i++) {
				x ^= x << 13; x ^= x >> 7; x ^= x << 17;
				uint64_t w = x;
				// bias towards lead/continuation bytes so that the fast path conditions are met often
				unsigned char b[8]; memcpy(b, &w, 8);
				for (int k = 0; k < 8; k++) { unsigned sel = (x >> (k * 3 + 5)) & 7; if (sel < 3) b[k] = (k % 2) ? (0x80 | (b[k] & 0x3F)) : (0xC0 | (b[k] & 0x1F)); else if (sel < 5) b[k] &= 0x7F; }
				memcpy(&w, b, 8);
				check_word64(w, parts[t]); parts[t].evaluations++;
				if (!parts[t].violations.empty()) return;
			}
		});
		for (auto &x : th) x.join();
		for (auto &p : parts) { res.evaluations += p.evaluations; res.nontrivial += p.evaluations; for (auto &v : p.violations) if (res.violations.size() < 5) res.violations.push_back(v); }
		res.labels["words64_class_product"] = 1;
	} else {
		// rapidcheck strings
		std::string params = "seed=" + std::to_string(seed) + " max_success=" + std::to_string(cases) + " max_size=" + std::to_string(size);
		setenv("RC_PARAMS", params.c_str(), 1);
		auto frag = rc::gen::weightedOneOf<std::string>({
		    {4, rc::gen::map(rc::gen::inRange(0x20, 0x7F), [](int c) { return std::string(1, (char)c); })},
		    {3, rc::gen::map(rc::gen::inRange(0x80, 0x800), [](int cp) { std::string s; js::append_utf8(s, (uint32_t)cp); return s; })},
		    {3, rc::gen::map(rc::gen::inRange(0x800, 0x10000), [](int cp) { std::string s; if (cp >= 0xD800 && cp <= 0xDFFF) cp = 0xE000; js::append_utf8(s, (uint32_t)cp); return s; })},
		    {2, rc::gen::map(rc::gen::inRange(0x10000, 0x110000), [](int cp) { std::string s; js::append_utf8(s, (uint32_t)cp); return s; })},
		    {1, rc::gen::element<std::string>("\xC0\x80", "\xC1\xBF", "\xE0\x80\x80", "\xE0\x9F\xBF", "\xF0\x80\x80\x80", "\xF0\x8F\xBF\xBF")},  // overlong
		    {1, rc::gen::element<std::string>("\xED\xA0\x80", "\xED\xBF\xBF", "\xED\xAF\xBF")},                                              // surrogates
		    {1, rc::gen::element<std::string>("\xF4\x90\x80\x80", "\xF5\x80\x80\x80", "\xF7\xBF\xBF\xBF", "\xF8\x88\x80\x80\x80", "\xFF", "\xFE")},
		    {1, rc::gen::element<std::string>("\xC2", "\xE1\x80", "\xF1\x80\x80", "\x80", "\xBF", "\xE1", "\xF4\x8F")},                    // truncated / stray
		    {1, rc::gen::element<std::string>("\xC2\x80", "\xDF\xBF", "\xC2\xA9\xC3\xA9", "\xC0\x80\xC2\x80", "\xC2\x80\xC0\x80", "\xC1\x80\xDF\x80")}, // pairs that hit the fast paths
		    {1, rc::gen::map(rc::gen::arbitrary<unsigned char>(), [](unsigned char c) { return std::string(1, (char)c); })},
		});
		bool ok = rc::check("C18", [&]() {
			if (budget::over()) { budget::skipped()++; return; }
			auto frags = *rc::gen::container<std::vector<std::string>>(frag);
			std::string s; for (auto &f : frags) s += f;
			int pad = *rc::gen::inRange(0, 4);
			if (pad == 1) while (s.size() % 4) s += 'a';
			if (pad == 2) while (s.size() % 8) s += 'b';
			if (pad == 3) { s = std::string((size_t)*rc::gen::inRange(0, 8), 'p') + s; while (s.size() % 8) s += 'q'; }
			int align = *rc::gen::inRange(0, 8);
			bool complete = *rc::gen::arbitrary<bool>();
			std::vector<size_t> cuts;
			size_t ncuts = (size_t)*rc::gen::inRange(0, 4);
			for (size_t i = 0; i < ncuts; i++) cuts.push_back((size_t)*rc::gen::inRange<int>(0, (int)s.size() + 1));
			std::sort(cuts.begin(), cuts.end());
			res.evaluations++;
			bool multibyte = false; for (unsigned char c : s) if (c >= 0x80) multibyte = true;
			if (multibyte) { res.nontrivial++; if (res.samples.size() < 3 && res.nontrivial % 101 == 1) { js::Value o = js::Value::obj(); o.set("hex", js::Value::str(hex((const unsigned char *)s.data(), s.size()))); o.set("align", js::Value::num(align)); o.set("complete", js::Value::boolean(complete)); res.samples.push_back(o); } }
			Result scratch;
			if (!check_string(s, align, cuts, complete, scratch)) { res.violations = scratch.violations; RC_FAIL("verdict differs from RFC 3629 reference"); }
			res.violations.clear();
		});
		if (ok) res.violations.clear();
	}
	double wall = std::chrono::duration<double>(std::chrono::steady_clock::now() - t0).count();
	js::Value o = js::Value::obj();
	o.set("property", js::Value::str("C18")); o.set("evaluations", js::Value::num((double)res.evaluations));
	o.set("nontrivial_count", js::Value::num((double)res.nontrivial));
	o.set("nontrivial_hashes", js::Value::arr());
	js::Value l = js::Value::obj(); for (auto &x : res.labels) l.set(x.first, js::Value::num((double)x.second)); o.set("labels", l);
	o.set("stat", js::Value::obj()); o.set("known_hits", js::Value::obj());
	js::Value sm = js::Value::arr(); for (auto &x : res.samples) sm.push(x); o.set("samples", sm);
	js::Value vs = js::Value::arr();
	int idx = 0;
	for (auto &x : res.violations) {
		js::Value e = x;
		std::string dir = std::string(getenv("VERIF_ROOT") ? getenv("VERIF_ROOT") : "/verif") + "/replays/C18/found"; std::string cmd = "mkdir -p " + dir; if (system(cmd.c_str())) {}
		std::string path = dir + "/" + mode + "-" + std::to_string(seed) + "-" + std::to_string(idx++) + ".json";
		std::ofstream f(path); f << js::dump(x);
		e.set("replay", js::Value::str(path));
		vs.push(e);
		printf("FOUND %s %s\n", x.get("signature")->s.c_str(), x.get("detail")->s.c_str());
	}
	o.set("violations", vs); o.set("wall_s", js::Value::num(wall));
	if (!out.empty()) { std::ofstream f(out); f << js::dump(o); }
	return res.violations.empty() ? 0 : 1;
}
