// C19 — permessage-deflate: lossless round trip, bounded memory, legal negotiation.
// The real websocket.c + compression.c + vendored zlib (symbols prefixed cjz_) form the server endpoint; the other endpoint
// is this harness with the *system* zlib. Every case runs in a forked child under ASan/UBSan/LSan.
#include "../fw/deadline.hpp"
#include "../fw/codec.hpp"
#include "../fw/json.hpp"
#include "../fw/scenario.hpp"
#include <rapidcheck.h>
#include <zlib.h>
#include <chrono>
#include <fstream>
#include <map>
#include <set>
#include <sstream>
#include <unordered_set>
#include <sys/wait.h>
#include <unistd.h>
#include <poll.h>

extern "C" {
struct c19_ctx;
c19_ctx *c19_new(int level);
void c19_feed(c19_ctx *c, const uint8_t *data, size_t n);
int c19_send(c19_ctx *c, int kind, uint8_t *payload, size_t n);
void c19_eof(c19_ctx *c);
size_t c19_out(c19_ctx *c, uint8_t **p);
void c19_out_clear(c19_ctx *c);
size_t c19_msg(c19_ctx *c, uint8_t **p, int *done, int *kind);
void c19_msg_clear(c19_ctx *c);
int c19_closed(c19_ctx *c);
int c19_accepted(c19_ctx *c);
void c19_free(c19_ctx *c);
size_t c19_accounted(void);
int __lsan_do_recoverable_leak_check(void);
}

struct Msg { int dir; int kind; std::string payload; std::vector<int> frags; int corrupt; int cseed; };
struct Case { int level; std::string offer; std::vector<Msg> msgs; int hs_defect = 0; }; // hs_defect != 0: the upgrade fails after the extension offer was read

static js::Value case_json(const Case &c)
{
	js::Value o = js::Value::obj(); o.set("level", js::Value::num(c.level)); o.set("offer", js::Value::str(c.offer)); if (c.hs_defect) o.set("hs_defect", js::Value::num(c.hs_defect));
	js::Value ms = js::Value::arr();
	for (auto &m : c.msgs) { js::Value e = js::Value::obj(); e.set("dir", js::Value::num(m.dir)); e.set("kind", js::Value::num(m.kind)); e.set("payload_hex", js::Value::str(scen::tohex(m.payload)));
		js::Value f = js::Value::arr(); for (int x : m.frags) f.push(js::Value::num(x)); e.set("frags", f); e.set("corrupt", js::Value::num(m.corrupt)); e.set("cseed", js::Value::num(m.cseed)); ms.push(e); }
	o.set("msgs", ms);
	return o;
}
static bool case_from(const js::Value &v, Case &c)
{
	if (!v.is_obj() || !v.get("msgs")) return false;
	c.level = scen::geti(v, "level", 1); c.offer = v.get("offer") ? v.get("offer")->s : ""; c.hs_defect = scen::geti(v, "hs_defect", 0);
	for (auto &e : v.get("msgs")->a) { Msg m; m.dir = scen::geti(e, "dir"); m.kind = scen::geti(e, "kind", 1); m.payload = scen::fromhex(e.get("payload_hex")->s); for (auto &x : e.get("frags")->a) m.frags.push_back((int)x.d); m.corrupt = scen::geti(e, "corrupt"); m.cseed = scen::geti(e, "cseed"); c.msgs.push_back(m); }
	return true;
}

struct Params { bool accepted = false; int c_bits = 15, s_bits = 15; bool c_nct = false, s_nct = false; };

static std::vector<std::string> split(const std::string &s, char sep)
{
	std::vector<std::string> v; std::string cur;
	for (char ch : s) { if (ch == sep) { v.push_back(cur); cur.clear(); } else cur += ch; }
	v.push_back(cur);
	for (auto &x : v) { while (!x.empty() && x.front() == ' ') x.erase(0, 1); while (!x.empty() && x.back() == ' ') x.pop_back(); }
	return v;
}

// Is the response legal with respect to the offers (RFC 7692 section 7.1)? Fills the agreed parameters.
static bool negotiation_ok(const std::string &offer_header, const std::string &response, Params &p, std::string &why)
{
	if (response.empty()) return true; // declining is always allowed
	auto rparts = split(response, ';');
	if (rparts.empty() || rparts[0] != "permessage-deflate") { why = "response names an extension that is not permessage-deflate: " + response; return false; }
	std::map<std::string, std::string> rp;
	for (size_t i = 1; i < rparts.size(); i++) {
		auto kv = split(rparts[i], '=');
		if (rp.count(kv[0])) { why = "duplicate parameter in response: " + kv[0]; return false; }
		rp[kv[0]] = kv.size() > 1 ? kv[1] : "";
	}
	for (auto &kv : rp) {
		if (kv.first != "client_max_window_bits" && kv.first != "server_max_window_bits" && kv.first != "client_no_context_takeover" && kv.first != "server_no_context_takeover") { why = "unknown parameter in response: " + kv.first; return false; }
		if (kv.first.find("window_bits") != std::string::npos) { int v = atoi(kv.second.c_str()); if (kv.second.empty() || v < 8 || v > 15) { why = "window bits out of range in response: " + kv.second; return false; } }
		else if (!kv.second.empty()) { why = "takeover parameter with a value"; return false; }
	}
	// the response must be justified by at least one offered permessage-deflate entry
	bool justified = false;
	for (auto &off : split(offer_header, ',')) {
		auto parts = split(off, ';');
		if (parts.empty() || parts[0] != "permessage-deflate") continue;
		std::map<std::string, std::string> op; bool valid = true;
		for (size_t i = 1; i < parts.size(); i++) { auto kv = split(parts[i], '='); if (op.count(kv[0])) valid = false; op[kv[0]] = kv.size() > 1 ? kv[1] : ""; }
		for (auto &kv : op) {
			if (kv.first != "client_max_window_bits" && kv.first != "server_max_window_bits" && kv.first != "client_no_context_takeover" && kv.first != "server_no_context_takeover") valid = false;
			if (kv.first == "server_max_window_bits") { int v = atoi(kv.second.c_str()); if (v < 8 || v > 15) valid = false; }
			if (kv.first == "client_max_window_bits" && !kv.second.empty()) { int v = atoi(kv.second.c_str()); if (v < 8 || v > 15) valid = false; }
		}
		if (!valid) continue; // an invalid offer must be declined, it cannot justify an acceptance
		bool ok = true;
		if (rp.count("client_max_window_bits")) {
			if (!op.count("client_max_window_bits")) ok = false;
			else if (!op["client_max_window_bits"].empty() && atoi(rp["client_max_window_bits"].c_str()) > atoi(op["client_max_window_bits"].c_str())) ok = false;
		}
		if (op.count("server_max_window_bits")) { if (!rp.count("server_max_window_bits") || atoi(rp["server_max_window_bits"].c_str()) > atoi(op["server_max_window_bits"].c_str())) ok = false; }
		if (op.count("server_no_context_takeover") && !rp.count("server_no_context_takeover")) ok = false;
		if (ok) justified = true;
	}
	if (!justified) { why = "response '" + response + "' is not justified by any valid offer in '" + offer_header + "'"; return false; }
	p.accepted = true;
	if (rp.count("client_max_window_bits")) p.c_bits = atoi(rp["client_max_window_bits"].c_str());
	if (rp.count("server_max_window_bits")) p.s_bits = atoi(rp["server_max_window_bits"].c_str());
	p.c_nct = rp.count("client_no_context_takeover"); p.s_nct = rp.count("server_no_context_takeover");
	return true;
}

// one case inside the child: returns "" or a description of the violation
static std::string run_case_inproc(const Case &c, bool *nontrivial)
{
	c19_ctx *x = c19_new(c.level);
	std::string hs = "GET / HTTP/1.1\r\nHost: h\r\nUpgrade: websocket\r\nConnection: Upgrade\r\nSec-WebSocket-Key: dGhlIHNhbXBsZSBub25jZQ==\r\nSec-WebSocket-Version: 13\r\n";
	if (!c.offer.empty()) hs += "Sec-WebSocket-Extensions: " + c.offer + "\r\n";
	hs += "\r\n";
	if (c.hs_defect) {
		// the offer is read (and possibly accepted) first, then the exchange turns out not to be a valid upgrade, or simply ends
		hs = "GET / HTTP/1.1\r\nHost: h\r\n";
		if (!c.offer.empty()) hs += "Sec-WebSocket-Extensions: " + c.offer + "\r\n";
		switch (c.hs_defect % 5) {
		case 0: hs += "Upgrade: websocket\r\nConnection: Upgrade\r\nSec-WebSocket-Version: 13\r\n\r\n"; break;                                             // no key
		case 1: hs += "Upgrade: websocket\r\nConnection: Upgrade\r\nSec-WebSocket-Key: dGhlIHNhbXBsZSBub25jZQ==\r\nSec-WebSocket-Version: 12\r\n\r\n"; break; // wrong version
		case 2: hs += "Connection: Upgrade\r\nSec-WebSocket-Key: dGhlIHNhbXBsZSBub25jZQ==\r\nSec-WebSocket-Version: 13\r\n\r\n"; break;                        // no Upgrade header
		case 3: hs += "Upgrade: websocket\r\nConnection: Upgrade\r\nbroken header line\r\n\r\n"; break;                                                        // malformed later line
		default: hs += "Upgrade: websocket\r\nConnection: Upgr"; break;                                                                                            // the client goes away half-way
		}
	}
	c19_feed(x, (const uint8_t *)hs.data(), hs.size());
	uint8_t *o; size_t on = c19_out(x, &o);
	std::string out((const char *)o, on);
	codec::HttpHead head = codec::parse_http_head(out);
	std::string fail;
	Params p;
	if (!head.complete || head.status != 101) {
		// a refusal of the whole upgrade is not a negotiation answer; nothing more to check
		c19_free(x);
		if (c19_accounted() != 0) return "memory accounted after a refused upgrade";
		if (__lsan_do_recoverable_leak_check()) return "memory leaked after a refused upgrade (LeakSanitizer)";
		if (c.hs_defect && nontrivial && !c.offer.empty()) *nontrivial = true;
		return "";
	}
	std::string why;
	if (c.hs_defect) { c19_free(x); return "101 for an exchange that is not a valid upgrade"; }
	if (!negotiation_ok(c.offer, head.header("Sec-WebSocket-Extensions"), p, why)) { c19_free(x); return "negotiation: " + why; }
	if ((bool)c19_accepted(x) != p.accepted) { c19_free(x); return "endpoint's internal 'accepted' state disagrees with its response header"; }
	c19_out_clear(x);
	z_stream def; memset(&def, 0, sizeof def); z_stream inf; memset(&inf, 0, sizeof inf);
	bool stored = p.c_bits == 8;
	deflateInit2(&def, stored ? Z_NO_COMPRESSION : Z_DEFAULT_COMPRESSION, Z_DEFLATED, -(p.c_bits < 9 ? 9 : p.c_bits), 8, Z_DEFAULT_STRATEGY);
	inflateInit2(&inf, -p.s_bits);
	size_t outpos = 0; (void)outpos;
	for (auto &m : c.msgs) {
		if (c19_closed(x)) break;
		if (m.dir == 0) {
			// client -> server
			std::string wire = m.payload; bool compressed = p.accepted;
			if (compressed && m.payload.empty()) wire = std::string(1, '\0'); // RFC 7692 7.2.3.6: an empty message is the single byte 0x00
			else if (compressed) {
				std::vector<uint8_t> buf(m.payload.size() * 2 + 64);
				def.next_in = (Bytef *)m.payload.data(); def.avail_in = (uInt)m.payload.size(); def.next_out = buf.data(); def.avail_out = (uInt)buf.size();
				deflate(&def, Z_SYNC_FLUSH);
				size_t n = buf.size() - def.avail_out;
				if (n >= 4) n -= 4;
				wire.assign((const char *)buf.data(), n);
				if (p.c_nct) deflateReset(&def);
			}
			bool corrupt = m.corrupt != 0 && m.corrupt != 4 && compressed && !wire.empty();
			if (corrupt) {
				uint32_t s = (uint32_t)m.cseed * 2654435761u + 12345;
				if (m.corrupt == 1) wire[s % wire.size()] ^= (char)(1 << (s >> 8) % 8);
				else if (m.corrupt == 2) wire.resize(s % wire.size());
				else for (auto &ch : wire) { s = s * 1664525u + 1013904223u; ch = (char)(s >> 24); }
			}
			// fragment
			std::vector<std::string> parts; size_t pos = 0;
			// (a fragment size of 0 is an empty frame: legal anywhere in a fragmented message, RFC 6455 5.4)
			for (int f : m.frags) { if (f == 0) { parts.push_back(""); continue; } if (pos >= wire.size()) break; size_t n = std::min<size_t>((size_t)(f < 1 ? 1 : f), wire.size() - pos); parts.push_back(wire.substr(pos, n)); pos += n; }
			if (pos < wire.size() || parts.empty()) parts.push_back(wire.substr(pos));
			c19_msg_clear(x);
			bool abandoned = m.corrupt == 4 && parts.size() >= 2; // the client goes away in the middle of a fragmented message
			if (abandoned) parts.pop_back();
			for (size_t i = 0; i < parts.size(); i++) {
				codec::WsFrame f; f.opcode = i == 0 ? m.kind : 0; f.fin = !abandoned && i + 1 == parts.size(); f.rsv = (i == 0 && compressed) ? 4 : 0; f.payload = parts[i];
				uint32_t mk = (uint32_t)(m.cseed * 31 + i * 7 + 1); f.mask[0] = mk; f.mask[1] = mk >> 8; f.mask[2] = mk >> 16; f.mask[3] = mk >> 24;
				std::string enc = codec::ws_encode(f);
				c19_feed(x, (const uint8_t *)enc.data(), enc.size());
				if (c19_closed(x)) break;
			}
			uint8_t *mp; int done, kind; size_t mn = c19_msg(x, &mp, &done, &kind);
			if (abandoned) { if (nontrivial) *nontrivial = true; break; } // nothing is delivered; what matters is what is left behind when the connection is released
			if (corrupt) {
				// adversarial input: anything but memory errors is acceptable; the state of both codecs is undefined afterwards,
				// so nothing further can be expected from this connection
				if (nontrivial) *nontrivial = true;
				break;
			}
			if (c19_closed(x)) { fail = "a well-formed " + std::string(compressed ? "compressed " : "") + "message of " + std::to_string(m.payload.size()) + " bytes in " + std::to_string(parts.size()) + " fragment(s) made the endpoint close the connection"; break; }
			if (done != 1) { fail = "message of " + std::to_string(m.payload.size()) + " bytes in " + std::to_string(parts.size()) + " fragment(s): " + std::to_string(done) + " messages delivered to the application"; break; }
			if (std::string((const char *)mp, mn) != m.payload) { fail = "client->server payload changed: sent " + std::to_string(m.payload.size()) + " bytes, application got " + std::to_string(mn) + " bytes"; break; }
			if (nontrivial && p.accepted && (m.payload.size() >= 1 || parts.size() >= 2)) *nontrivial = true;
		} else {
			// server -> client
			std::string pl = m.payload;
			int r = c19_send(x, m.kind, (uint8_t *)pl.data(), pl.size());
			if (r < 0) { fail = "sending a " + std::to_string(pl.size()) + " byte message failed (" + std::to_string(r) + ")"; break; }
			uint8_t *op; size_t n = c19_out(x, &op);
			std::string ob((const char *)op, n);
			std::vector<codec::WsFrame> fr; size_t dp = 0;
			if (!codec::ws_decode_all(ob, dp, fr) || fr.size() != 1 || dp != ob.size()) { fail = "server output for one message is not exactly one frame"; break; }
			c19_out_clear(x);
			std::string got = fr[0].payload;
			if (fr[0].masked) { fail = "server frame masked"; break; }
			if (!p.accepted && fr[0].rsv != 0) { fail = "server sets RSV bits although no extension was negotiated"; break; }
			if (fr[0].rsv != 0 && fr[0].rsv != 4) { fail = "server sets RSV2/RSV3"; break; }
			if (fr[0].rsv == 4) { // a sender may also leave a message uncompressed (RFC 7692 section 6)
				std::string in = got + std::string("\x00\x00\xff\xff", 4);
				std::vector<uint8_t> buf(pl.size() + 4096);
				inf.next_in = (Bytef *)in.data(); inf.avail_in = (uInt)in.size(); inf.next_out = buf.data(); inf.avail_out = (uInt)buf.size();
				int zr = inflate(&inf, Z_SYNC_FLUSH);
				if (zr != Z_OK && zr != Z_BUF_ERROR && zr != Z_STREAM_END) { fail = "system zlib cannot inflate the server's frame for a " + std::to_string(pl.size()) + " byte message (zlib " + std::to_string(zr) + ")"; break; }
				got.assign((const char *)buf.data(), buf.size() - inf.avail_out);
				if (p.s_nct) inflateReset(&inf);
			}
			if (got != m.payload) { fail = "server->client payload changed: " + std::to_string(m.payload.size()) + " bytes sent, " + std::to_string(got.size()) + " bytes after inflating"; break; }
			if (nontrivial && p.accepted && pl.size() >= 1) *nontrivial = true;
		}
	}
	deflateEnd(&def); inflateEnd(&inf);
	c19_free(x);
	if (fail.empty() && c19_accounted() != 0) fail = "accounted memory left after the connection was closed: " + std::to_string(c19_accounted());
	if (fail.empty() && __lsan_do_recoverable_leak_check()) fail = "memory leaked (LeakSanitizer)";
	return fail;
}

struct Result { bool crashed = false; std::string fail, sig, err; bool nontrivial = false; };

static Result run_forked(const Case &c)
{
	Result r;
	int vp[2], ep[2];
	if (pipe(vp) || pipe(ep)) exit(2);
	fflush(stdout); fflush(stderr);
	pid_t pid = fork();
	if (pid == 0) {
		close(vp[0]); close(ep[0]); dup2(ep[1], 2);
		alarm(20);
		bool nt = false;
		std::string f = run_case_inproc(c, &nt);
		std::string msg = std::string(nt ? "1" : "0") + f;
		if (write(vp[1], msg.data(), msg.size()) < 0) {}
		_exit(0);
	}
	close(vp[1]); close(ep[1]);
	std::string v; char buf[4096]; ssize_t n;
	struct pollfd pf[2] = {{vp[0], POLLIN, 0}, {ep[0], POLLIN, 0}}; bool o0 = true, o1 = true;
	while (o0 || o1) {
		pf[0].fd = o0 ? vp[0] : -1; pf[1].fd = o1 ? ep[0] : -1;
		if (poll(pf, 2, 25000) <= 0) { kill(pid, SIGKILL); break; }
		if (o0 && (pf[0].revents & (POLLIN | POLLHUP))) { n = read(vp[0], buf, sizeof buf); if (n <= 0) o0 = false; else v.append(buf, (size_t)n); }
		if (o1 && (pf[1].revents & (POLLIN | POLLHUP))) { n = read(ep[0], buf, sizeof buf); if (n <= 0) o1 = false; else if (r.err.size() < 100000) r.err.append(buf, (size_t)n); }
	}
	close(vp[0]); close(ep[0]);
	int st = 0; waitpid(pid, &st, 0);
	if (v.empty() || !WIFEXITED(st) || WEXITSTATUS(st) != 0) {
		r.crashed = true;
		size_t p = r.err.find("ERROR: AddressSanitizer: ");
		if (p != std::string::npos) { size_t s = p + 25, e = r.err.find_first_of(" \n", s); r.sig = "asan:" + r.err.substr(s, e - s); }
		else if ((p = r.err.find("runtime error: ")) != std::string::npos) r.sig = "ubsan:" + r.err.substr(p + 15, std::min<size_t>(50, r.err.find('\n', p) - p - 15));
		else r.sig = WIFSIGNALED(st) ? "signal:" + std::to_string(WTERMSIG(st)) : "exit:" + std::to_string(WEXITSTATUS(st));
		// innermost frame in the repository's sources
		size_t pos = 0;
		while ((pos = r.err.find("\n    #", pos)) != std::string::npos) { size_t eol = r.err.find('\n', pos + 1); std::string line = r.err.substr(pos + 1, eol - pos - 1); pos = eol == std::string::npos ? r.err.size() : eol; size_t in = line.find(" in "); if (in == std::string::npos) continue; size_t fe = line.find(' ', in + 4); if (line.find("/src/", fe) != std::string::npos) { r.sig += "@" + line.substr(in + 4, fe - in - 4); break; } if (eol == std::string::npos) break; }
	} else { r.nontrivial = v[0] == '1'; r.fail = v.substr(1); if (!r.fail.empty()) r.sig = "C19/" + r.fail.substr(0, r.fail.find(':')).substr(0, 60); }
	return r;
}

static std::string read_file(const std::string &path) { std::ifstream f(path, std::ios::binary); std::stringstream ss; ss << f.rdbuf(); return ss.str(); }

int main(int argc, char **argv)
{
	if (!getenv("VERIF_REEXEC")) { setenv("VERIF_REEXEC", "1", 1); setenv("ASAN_OPTIONS", "detect_leaks=1:exitcode=77:allocator_may_return_null=1:external_symbolizer_path=/usr/bin/llvm-symbolizer-14", 1); setenv("UBSAN_OPTIONS", "print_stacktrace=1:halt_on_error=1", 1); setenv("LSAN_OPTIONS", "exitcode=0", 1); execv("/proc/self/exe", argv); }
	std::string out, replay, mode = "random", known_file = getenv("C19_KNOWN") ? getenv("C19_KNOWN") : std::string(getenv("VERIF_ROOT") ? getenv("VERIF_ROOT") : "/verif") + "/KNOWN_FINDINGS.jsonl"; long cases = 1000; unsigned long seed = 1; int size = 60;
	for (int i = 1; i < argc; i++) {
		std::string a = argv[i];
		auto next = [&]() { return i + 1 < argc ? std::string(argv[++i]) : std::string(); };
		if (a == "--out") out = next(); else if (a == "--replay") replay = next(); else if (a == "--cases") cases = atol(next().c_str());
		else if (a == "--seed") seed = strtoul(next().c_str(), nullptr, 10); else if (a == "--size") size = atoi(next().c_str()); else if (a == "--mode") mode = next(); else if (a == "--variant") next();
	}
	// open known findings for this property: {"property":"C19","signature":...}
	std::vector<std::pair<std::string, std::string>> known;
	{ std::ifstream f(known_file); std::string line; while (std::getline(f, line)) { if (line.empty() || line[0] != '{') continue; js::Value o; if (!js::parse(line, o)) continue; auto *pp = o.get("property"); auto *sg = o.get("signature"); auto *st = o.get("status"); if (pp && sg && pp->s == "C19" && (!st || st->s == "open")) known.push_back({sg->s, o.get("what") ? o.get("what")->s : sg->s}); } }
	std::map<std::string, long> known_hits;
	auto is_known = [&](const std::string &sig) { for (auto &k : known) if (sig.find(k.first) != std::string::npos) { known_hits[k.first]++; return true; } return false; };
	auto t0 = std::chrono::steady_clock::now();
	long evaluations = 0; std::unordered_set<uint64_t> nontrivial; std::map<std::string, long> labels;
	std::vector<js::Value> violations, samples;
	if (!replay.empty()) {
		js::Value v; js::parse(read_file(replay), v); Case c;
		if (!case_from(v.get("case") ? *v.get("case") : v, c)) { fprintf(stderr, "bad replay\n"); return 2; }
		Result r = run_forked(c);
		std::string sig = r.crashed ? r.sig : r.sig + " | " + r.fail;
		if ((r.crashed || !r.fail.empty()) && !is_known(sig)) { printf("FAIL %s: %s\n", r.sig.c_str(), r.crashed ? r.err.substr(0, 1500).c_str() : r.fail.c_str()); return 1; }
		for (auto &k : known_hits) printf("KNOWN %s x%ld\n", k.first.c_str(), k.second);
		printf("PASS replay %s\n", replay.c_str());
		if (!out.empty()) { js::Value o = js::Value::obj(); js::Value kh = js::Value::obj(); for (auto &k : known_hits) kh.set(k.first, js::Value::num((double)k.second)); o.set("known_hits", kh); o.set("evaluations", js::Value::num(1)); o.set("violations", js::Value::arr()); std::ofstream f(out); f << js::dump(o); }
		return 0;
	}
	std::string params = "seed=" + std::to_string(seed) + " max_success=" + std::to_string(cases) + " max_size=" + std::to_string(size);
	setenv("RC_PARAMS", params.c_str(), 1);
	auto R = [](int lo, int hi) { return rc::gen::resize(100, rc::gen::inRange(lo, hi)); };
	auto param = rc::gen::weightedOneOf<std::string>({
	    {3, rc::gen::just(std::string("client_max_window_bits"))},
	    {3, rc::gen::map(R(8, 16), [](int n) { return "client_max_window_bits=" + std::to_string(n); })},
	    {3, rc::gen::map(R(8, 16), [](int n) { return "server_max_window_bits=" + std::to_string(n); })},
	    {2, rc::gen::just(std::string("client_no_context_takeover"))},
	    {2, rc::gen::just(std::string("server_no_context_takeover"))},
	    {1, rc::gen::element<std::string>("server_max_window_bits=7", "client_max_window_bits=16", "server_max_window_bits", "client_max_window_bits=x", "foo", "server_max_window_bits=100", "client_no_context_takeover=1")},
	});
	auto one_offer = rc::gen::apply([](std::string name, std::vector<std::string> ps) { std::string s = name; for (auto &p : ps) s += "; " + p; return s; },
	                                rc::gen::weightedElement<std::string>({{8, "permessage-deflate"}, {1, "x-webkit-deflate-frame"}, {1, "permessage-deflat"}}), rc::gen::resize(4, rc::gen::container<std::vector<std::string>>(param)));
	auto offer = rc::gen::weightedOneOf<std::string>({{1, rc::gen::just(std::string())}, {8, rc::gen::map(rc::gen::resize(3, rc::gen::container<std::vector<std::string>>(one_offer)), [](std::vector<std::string> v) { std::string s; for (size_t i = 0; i < v.size(); i++) { if (i) s += ", "; s += v[i]; } return s; })}});
	auto payload = rc::gen::weightedOneOf<std::string>({
	    {1, rc::gen::just(std::string())},
	    {3, rc::gen::map(R(1, 9), [](int n) { return std::string("{\"a\":1}xyz").substr(0, (size_t)n); })},
	    {3, rc::gen::map(R(1, 500), [](int n) { std::string s; for (int i = 0; i < n; i++) s += "ab"[i % 2]; return s; })},                       // repetitive
	    {3, rc::gen::apply([](int n, int seed) { std::string s; uint32_t x = (uint32_t)seed * 2654435761u + 1; for (int i = 0; i < n; i++) { x = x * 1664525u + 1013904223u; s += (char)(x >> 24); } return s; }, R(1, 500), R(0, 100000))}, // incompressible
	    {3, rc::gen::map(R(1, 40), [](int n) { std::string s = "{\"id\":1,\"method\":\"change\",\"params\":{\"path\":\"some/long/path/name\",\"value\":["; for (int i = 0; i < n; i++) s += std::to_string(i) + ","; return s + "0]}}"; })},
	});
	auto msg = rc::gen::apply([](int dir, int kind, std::string p, std::vector<int> frags, int corrupt, int cseed) { Msg m; m.dir = dir; m.kind = kind; m.payload = p; m.frags = frags; m.corrupt = corrupt; m.cseed = cseed; if (kind == 1) for (auto &ch : m.payload) if ((unsigned char)ch >= 0x80) ch = 'u'; return m; },
	                          rc::gen::element<int>(0, 0, 1), rc::gen::element<int>(1, 2), payload,
	                          rc::gen::weightedOneOf<std::vector<int>>({{4, rc::gen::just(std::vector<int>{1000000})}, {4, rc::gen::resize(6, rc::gen::container<std::vector<int>>(rc::gen::weightedOneOf<int>({{3, R(1, 8)}, {2, R(8, 60)}, {1, R(60, 400)}, {1, rc::gen::just(0)}})))}}),
	                          rc::gen::weightedElement<int>({{12, 0}, {1, 1}, {1, 2}, {1, 3}, {1, 4}}), R(0, 100000));
	Case last; Result lastr; bool have = false;
	bool ok = rc::check("C19", [&]() {
			if (budget::over()) { budget::skipped()++; return; }
		Case c; c.level = *rc::gen::resize(100, rc::gen::element<int>(1, 2, 3, 0));
		c.offer = *offer; c.msgs = *rc::gen::container<std::vector<Msg>>(msg);
		c.hs_defect = *rc::gen::weightedElement<int>({{7, 0}, {1, 5}, {1, 1}, {1, 2}, {1, 3}, {1, 4}});
		Result r = run_forked(c);
		evaluations++;
		labels[std::string("level") + std::to_string(c.level)]++;
		std::string sig = r.crashed ? r.sig : r.sig + " | " + r.fail;
		bool bad = r.crashed || !r.fail.empty();
		if (bad && is_known(sig)) bad = false;
		if (!bad && r.nontrivial) { uint64_t h = scen::fnv(js::dump(case_json(c))); if (nontrivial.insert(h).second && samples.size() < 3 && nontrivial.size() % 37 == 1) samples.push_back(case_json(c)); }
		if (bad) { last = c; lastr = r; have = true; RC_FAIL(r.sig); }
	});
	if (!ok && have) {
		js::Value v = js::Value::obj(); v.set("signature", js::Value::str(lastr.sig)); v.set("detail", js::Value::str(lastr.crashed ? lastr.err.substr(0, 3000) : lastr.fail)); v.set("case", case_json(last));
		std::string dir = std::string(getenv("VERIF_ROOT") ? getenv("VERIF_ROOT") : "/verif") + "/replays/C19/found"; std::string cmd = "mkdir -p " + dir; if (system(cmd.c_str())) {}
		char name[40]; snprintf(name, sizeof name, "%016llx", (unsigned long long)scen::fnv(js::dump(case_json(last))));
		std::string path = dir + "/" + name + ".json"; { std::ofstream f(path); f << js::dump(v); }
		v.set("replay", js::Value::str(path)); violations.push_back(v);
		printf("FOUND %s %s\n", lastr.sig.c_str(), path.c_str());
	}
	double wall = std::chrono::duration<double>(std::chrono::steady_clock::now() - t0).count();
	js::Value o = js::Value::obj();
	o.set("property", js::Value::str("C19")); o.set("evaluations", js::Value::num((double)evaluations));
	o.set("nontrivial_count", js::Value::num((double)nontrivial.size())); o.set("nontrivial_hashes", js::Value::arr());
	js::Value l = js::Value::obj(); for (auto &x : labels) l.set(x.first, js::Value::num((double)x.second)); o.set("labels", l);
	o.set("stat", js::Value::obj());
	js::Value kh = js::Value::obj(); for (auto &k : known_hits) kh.set(k.first, js::Value::num((double)k.second)); o.set("known_hits", kh);
	js::Value sm = js::Value::arr(); for (auto &x : samples) sm.push(x); o.set("samples", sm);
	js::Value vs = js::Value::arr(); for (auto &x : violations) vs.push(x); o.set("violations", vs);
	o.set("wall_s", js::Value::num(wall));
	if (!out.empty()) { std::ofstream f(out); f << js::dump(o); }
	return violations.empty() ? 0 : 1;
}
