/* C19 shim: a WebSocket server endpoint of the real websocket.c/compression.c/http_connection.c on top of an in-memory
 * buffered reader. Compiled at check time against /repo. */
#include <stdbool.h>
#include <stdint.h>
#include <stdlib.h>
#include <string.h>
#include <stdarg.h>

#include "alloc.h"
#include "buffered_reader.h"
#include "http_connection.h"
#include "http_server.h"
#include "websocket.h"

struct c19_ctx {
	struct http_server server;
	struct url_handler handler;
	struct http_connection *connection; /* freed by websocket_close()/free_connection() */
	struct websocket ws;
	bool ws_created;
	struct buffered_reader br;
	/* pending read request */
	int mode; /* 0 none, 1 exactly, 2 until */
	size_t want; const char *delim;
	read_handler handler_fn; void *handler_ctx;
	uint8_t *in; size_t in_len, in_cap;
	uint8_t *out; size_t out_len, out_cap;
	uint8_t *msg; size_t msg_len, msg_cap; /* data of the message being received through callbacks */
	int msgs_done; int msg_kind;      /* 1 text 2 binary */
	bool closed, errored;
	int level;
};

#include <stdio.h>
static void vlog(const char *fmt, va_list ap) { if (getenv("C19_LOG")) { vfprintf(stderr, fmt, ap); fputc('\n', stderr); } }
void log_err(const char *fmt, ...) { va_list ap; va_start(ap, fmt); vlog(fmt, ap); va_end(ap); }
void log_warn(const char *fmt, ...) { va_list ap; va_start(ap, fmt); vlog(fmt, ap); va_end(ap); }
void log_info(const char *fmt, ...) { va_list ap; va_start(ap, fmt); vlog(fmt, ap); va_end(ap); }
void cjet_get_random_bytes(void *bytes, size_t n) { memset(bytes, 0x5a, n); }

static struct c19_ctx *g_ctx;

static void append(uint8_t **buf, size_t *len, size_t *cap, const void *data, size_t n)
{
	if (*len + n + 1 > *cap) { *cap = (*len + n + 1) * 2; *buf = realloc(*buf, *cap); }
	if (n) memcpy(*buf + *len, data, n);
	*len += n;
}

static int br_read_exactly(void *t, size_t num, read_handler h, void *hc) { struct c19_ctx *c = t; c->mode = 1; c->want = num; c->handler_fn = h; c->handler_ctx = hc; return 0; }
static int br_read_until(void *t, const char *delim, read_handler h, void *hc) { struct c19_ctx *c = t; c->mode = 2; c->delim = delim; c->handler_fn = h; c->handler_ctx = hc; return 0; }
static int br_writev(void *t, struct socket_io_vector *iov, unsigned int count)
{
	struct c19_ctx *c = t;
	for (unsigned int i = 0; i < count; i++) append(&c->out, &c->out_len, &c->out_cap, iov[i].iov_base, iov[i].iov_len);
	return 0;
}
static int br_close(void *t) { struct c19_ctx *c = t; c->closed = true; c->mode = 0; return 0; }
static void br_set_error(void *t, error_handler h, void *ec) { (void)t; (void)h; (void)ec; }

static void on_error(struct websocket *s) { (void)s; g_ctx->errored = true; }

static void begin_or_append(struct c19_ctx *c, const void *d, size_t n, int kind) { c->msg_kind = kind; append(&c->msg, &c->msg_len, &c->msg_cap, d, n); }
static enum websocket_callback_return text_msg(struct websocket *s, char *m, size_t n) { (void)s; begin_or_append(g_ctx, m, n, 1); g_ctx->msgs_done++; return WS_OK; }
static enum websocket_callback_return bin_msg(struct websocket *s, uint8_t *m, size_t n) { (void)s; begin_or_append(g_ctx, m, n, 2); g_ctx->msgs_done++; return WS_OK; }
static enum websocket_callback_return text_frame(struct websocket *s, char *m, size_t n, bool last) { (void)s; begin_or_append(g_ctx, m, n, 1); if (last) g_ctx->msgs_done++; return WS_OK; }
static enum websocket_callback_return bin_frame(struct websocket *s, uint8_t *m, size_t n, bool last) { (void)s; begin_or_append(g_ctx, m, n, 2); if (last) g_ctx->msgs_done++; return WS_OK; }
static enum websocket_callback_return close_cb(struct websocket *s, enum ws_status_code code) { (void)s; (void)code; return WS_CLOSED; }

static int create(struct http_connection *connection)
{
	struct c19_ctx *c = g_ctx;
	connection->parser.data = &c->ws;
	if (websocket_init(&c->ws, connection, true, on_error, "jet") < 0) return -1;
	c->ws_created = true;
	c->ws.text_message_received = text_msg;
	c->ws.binary_message_received = bin_msg;
	c->ws.text_frame_received = text_frame;
	c->ws.binary_frame_received = bin_frame;
	c->ws.close_received = close_cb;
	struct buffered_reader *br = &connection->br;
	br->read_until(br->this_ptr, "\r\n", websocket_read_header_line, &c->ws);
	return 0;
}

struct c19_ctx *c19_new(int level)
{
	struct c19_ctx *c = calloc(1, sizeof *c);
	g_ctx = c;
	c->level = level;
	c->handler.request_target = "/";
	c->handler.create = create;
	c->handler.on_header_field = websocket_upgrade_on_header_field;
	c->handler.on_header_value = websocket_upgrade_on_header_value;
	c->handler.on_headers_complete = websocket_upgrade_on_headers_complete;
	c->server.handler = &c->handler;
	c->server.num_handlers = 1;
	c->br.this_ptr = c; c->br.read_exactly = br_read_exactly; c->br.read_until = br_read_until; c->br.writev = br_writev; c->br.close = br_close; c->br.set_error_handler = br_set_error;
	c->connection = alloc_http_connection();
	if (init_http_connection2(c->connection, &c->server, &c->br, false, (unsigned int)level) < 0) c->closed = true;
	return c;
}

/* emulates buffered_socket's go_reading over the in-memory input */
void c19_feed(struct c19_ctx *c, const uint8_t *data, size_t n)
{
	g_ctx = c;
	append(&c->in, &c->in_len, &c->in_cap, data, n);
	size_t pos = 0;
	while (!c->closed && c->mode != 0) {
		size_t take = 0;
		if (c->mode == 1) { if (c->in_len - pos < c->want) break; take = c->want; }
		else {
			size_t dl = strlen(c->delim); uint8_t *f = NULL;
			if (c->in_len - pos >= dl) f = memmem(c->in + pos, c->in_len - pos, c->delim, dl);
			if (!f) break;
			take = (size_t)(f - (c->in + pos)) + dl;
		}
		/* hand out a private copy: the real buffered socket lets callbacks modify the buffer in place (unmasking) */
		uint8_t *chunk = malloc(take ? take : 1);
		memcpy(chunk, c->in + pos, take);
		pos += take;
		read_handler h = c->handler_fn; void *hc = c->handler_ctx;
		enum bs_read_callback_return r = h(hc, chunk, take);
		free(chunk);
		if (r == BS_CLOSED) { c->closed = true; break; }
	}
	memmove(c->in, c->in + pos, c->in_len - pos);
	c->in_len -= pos;
}

int c19_send(struct c19_ctx *c, int kind, uint8_t *payload, size_t n)
{
	g_ctx = c;
	if (c->closed || !c->ws_created) return -2;
	return kind == 1 ? websocket_send_text_frame(&c->ws, (char *)payload, n) : websocket_send_binary_frame(&c->ws, payload, n);
}

void c19_eof(struct c19_ctx *c)
{
	g_ctx = c;
	if (!c->closed && c->mode != 0) { read_handler h = c->handler_fn; void *hc = c->handler_ctx; h(hc, NULL, 0); c->closed = true; }
}

size_t c19_out(struct c19_ctx *c, uint8_t **p) { *p = c->out; return c->out_len; }
void c19_out_clear(struct c19_ctx *c) { c->out_len = 0; }
size_t c19_msg(struct c19_ctx *c, uint8_t **p, int *done, int *kind) { *p = c->msg; *done = c->msgs_done; *kind = c->msg_kind; return c->msg_len; }
void c19_msg_clear(struct c19_ctx *c) { c->msg_len = 0; c->msgs_done = 0; }
int c19_closed(struct c19_ctx *c) { return c->closed; }
int c19_accepted(struct c19_ctx *c) { return c->ws_created && !c->closed && c->ws.extension_compression.accepted; }
void c19_free(struct c19_ctx *c)
{
	if (!c->closed && c->ws_created) websocket_close(&c->ws, WS_CLOSE_GOING_AWAY);
	else if (!c->closed) free_connection(c->connection);
	free(c->in); free(c->out); free(c->msg); free(c);
}
size_t c19_accounted(void) { return cjet_get_alloc_size(); }
