/* what hashtable.h/alloc.c need from the rest of the daemon */
#include <stdarg.h>
void log_err(const char *fmt, ...) { (void)fmt; }
