// C17 — the hopscotch hash tables behave as exact finite maps.
// The real macros are instantiated (c17_table.c) for orders 2..13 x {string,uint32,uint64}.
// Oracles: std::map model after every operation (return codes, values, prev_value, every other key),
// independent reachability reference for "table full", the routing sweep of router.c as an operation.
#include "../fw/deadline.hpp"
#include "../fw/json.hpp"
#include "../fw/scenario.hpp"
#include "c17_ops.h"
#include <rapidcheck.h>
#include <chrono>
#include <cstring>
#include <deque>
#include <fstream>
#include <map>
#include <set>
#include <sstream>
#include <unordered_set>
#include <vector>

#define DECL(t, o) extern "C" const struct ht_ops ht_ops_##t##_##o;
#define ALLO(t) DECL(t, 2) DECL(t, 3) DECL(t, 4) DECL(t, 5) DECL(t, 6) DECL(t, 7) DECL(t, 8) DECL(t, 9) DECL(t, 10) DECL(t, 11) DECL(t, 12) DECL(t, 13)
ALLO(0) ALLO(1) ALLO(2)
#define REF(t, o) &ht_ops_##t##_##o,
#define ALLR(t) REF(t, 2) REF(t, 3) REF(t, 4) REF(t, 5) REF(t, 6) REF(t, 7) REF(t, 8) REF(t, 9) REF(t, 10) REF(t, 11) REF(t, 12) REF(t, 13)
static const struct ht_ops *ALL[36] = {ALLR(0) ALLR(1) ALLR(2)};
static const struct ht_ops *ops_for(int type, int order) { return ALL[type * 12 + (order - 2)]; }

enum { HT_SUCCESS = 0, HT_FULL = -1, HT_KEYINVAL = -2, HT_INVALIDENTRY = -1 };

// one operation of a test sequence
struct TOp { int kind; int key; int val; int flags; }; // kind: 0 put 1 get 2 remove 3 sweep(all with odd value index) 4 put invalid key
static const char *kname[] = {"put", "get", "remove", "sweep", "put-invalid-key"};

struct Universe {
	const ht_ops *o;
	std::vector<uint64_t> keys;        // key as passed to the table (pointer for strings)
	std::vector<uint64_t> alias;       // second pointer with equal content (strings) or the same number
	std::vector<std::string> *pool = nullptr, *pool2 = nullptr;
	~Universe() { delete pool; delete pool2; }
};

// keys clustered around chosen home buckets (shared, neighbouring, at the end of the table so that probing wraps)
static void build_universe(Universe &u, const ht_ops *o, int nkeys, uint32_t seed, int cluster_mode)
{
	u.o = o;
	uint32_t size = 1u << o->order;
	std::vector<uint32_t> homes;
	uint32_t h0 = cluster_mode == 0 ? size - 2 : cluster_mode == 1 ? 0 : (seed * 2654435761u) % size; // near the end (wrap), at the start, anywhere
	int spread = cluster_mode == 3 ? (int)size : 3;
	for (int i = 0; i < spread && i < (int)size; i++) homes.push_back((h0 + i) % size);
	std::set<uint32_t> want(homes.begin(), homes.end());
	if (o->type == 0) { u.pool = new std::vector<std::string>(); u.pool2 = new std::vector<std::string>(); u.pool->reserve(nkeys + 8); u.pool2->reserve(nkeys + 8); }
	uint64_t cand = (uint64_t)seed * 7919u + 1;
	int guard = 0;
	while ((int)u.keys.size() < nkeys && guard < 40000000) {
		guard++; cand++;
		uint64_t k;
		std::string s;
		if (o->type == 0) { s = "k" + std::to_string(cand); k = (uint64_t)(uintptr_t)s.c_str(); }
		else if (o->type == 1) { k = (uint32_t)(cand * 2246822519u); if ((uint32_t)k == 0xFFFFFFFFu) continue; }
		else { k = cand * 0x9E3779B97F4A7C15ull; if (k == UINT64_MAX) continue; }
		if (!want.count(o->home(k))) continue;
		if (o->type == 0) {
			u.pool->push_back(s); u.pool2->push_back(s);
			u.keys.push_back((uint64_t)(uintptr_t)u.pool->back().c_str()); u.alias.push_back((uint64_t)(uintptr_t)u.pool2->back().c_str());
		} else { u.keys.push_back(k); u.alias.push_back(k); }
	}
}

static uint32_t dist(uint32_t from, uint32_t to, uint32_t size) { return (to - from) & (size - 1); }

// Can a free slot be brought within hop range of `home` by legal hopscotch displacements, starting from the first
// free slot of the linear probe (within add_range)? Uses only the table layout: occupancy and hop bitmaps.
static bool reachable(const ht_ops *o, void *t, uint64_t key, bool *needs_displacement, bool *wrapped)
{
	uint32_t size = 1u << o->order, add_range = size / 2, hop_range = 32;
	uint32_t home = o->home(key);
	uint32_t d = 0, pos = home;
	while (d < add_range && o->slot_used(t, pos)) { d++; pos = (pos + 1) & (size - 1); }
	if (d >= add_range) return false;
	if (wrapped) *wrapped = home + d >= size;
	if (d < hop_range) { if (needs_displacement) *needs_displacement = false; return true; }
	if (needs_displacement) *needs_displacement = true;
	std::set<uint32_t> seen; std::deque<uint32_t> work; work.push_back(pos); seen.insert(pos);
	while (!work.empty()) {
		uint32_t cur = work.front(); work.pop_front();
		if (dist(home, cur, size) < hop_range) return true;
		for (uint32_t back = 1; back < hop_range; back++) {
			uint32_t h = (cur - back) & (size - 1);          // a home bucket whose entries may live at `cur`
			uint32_t hop = o->slot_hop(t, h);
			for (uint32_t i = 0; i < back; i++) if (hop & (1u << i)) { // an entry of that bucket lying before `cur`
				uint32_t q = (h + i) & (size - 1);
				if (dist(home, q, size) < dist(home, cur, size) && seen.insert(q).second) work.push_back(q);
			}
		}
	}
	return false;
}

struct Failure { std::string what; };

struct Runner {
	const ht_ops *o; Universe *u; void *t = nullptr;
	std::map<int, int> model; // key index -> value index
	std::vector<std::string> trace;
	bool displaced = false, wrapped = false, refused = false;
	long ops_done = 0;
	static void *val(int v) { return (void *)(uintptr_t)(0x1000 + v * 16); }

	Runner(const ht_ops *oo, Universe *uu) : o(oo), u(uu) { t = o->create(); }
	~Runner() { if (t) o->destroy(t); }

	bool verify_all(std::string &why)
	{
		for (size_t i = 0; i < u->keys.size(); i++) {
			void *v = (void *)0x1; int r = o->get(t, (i % 2) ? u->alias[i] : u->keys[i], &v);
			auto it = model.find((int)i);
			if (it == model.end()) { if (r == HT_SUCCESS) { why = "lookup of absent key #" + std::to_string(i) + " succeeded"; return false; } }
			else { if (r != HT_SUCCESS) { why = "key #" + std::to_string(i) + " lost"; return false; } if (v != val(it->second)) { why = "key #" + std::to_string(i) + " maps to a wrong value"; return false; } }
		}
		return true;
	}

	// applies one op; returns false + why on violation
	bool apply(const TOp &op, std::string &why)
	{
		ops_done++;
		int ki = ((op.key % (int)u->keys.size()) + (int)u->keys.size()) % (int)u->keys.size();
		uint64_t key = (op.flags & 1) ? u->alias[ki] : u->keys[ki];
		switch (op.kind) {
		case 0: {
			bool present = model.count(ki);
			bool disp = false, wr = false;
			bool can = present ? true : reachable(o, t, key, &disp, &wr);
			void *prev = (void *)0x2; int want_prev = (op.flags >> 1) & 1;
			int r = o->put(t, key, val(op.val), &prev, want_prev);
			if (r == HT_SUCCESS) {
				if (!present && !can) { why = "put succeeded although the reference finds no reachable free slot"; return false; }
				if (want_prev) { void *exp = present ? val(model[ki]) : nullptr; if (prev != exp) { why = "prev_value wrong on put"; return false; } }
				model[ki] = op.val;
				if (!present && disp) displaced = true;
				if (!present && wr) wrapped = true;
			} else if (r == HT_FULL) {
				refused = true;
				if (present) { why = "overwrite of an existing key refused as full"; return false; }
				if (can) { why = "put refused as full although a free slot can be brought within reach (order " + std::to_string(o->order) + ")"; return false; }
			} else { why = "put returned " + std::to_string(r); return false; }
			break;
		}
		case 1: {
			void *v = (void *)0x3; int r = o->get(t, key, &v);
			auto it = model.find(ki);
			if ((r == HT_SUCCESS) != (it != model.end())) { why = "get return code wrong"; return false; }
			if (r == HT_SUCCESS && v != val(it->second)) { why = "get returned a wrong value"; return false; }
			break;
		}
		case 2: {
			void *v = (void *)0x4; int want = (op.flags >> 1) & 1; int r = o->remove(t, key, &v, want);
			auto it = model.find(ki);
			if ((r == HT_SUCCESS) != (it != model.end())) { why = "remove return code wrong"; return false; }
			if (r == HT_SUCCESS) { if (want && v != val(it->second)) { why = "remove returned a wrong value"; return false; } model.erase(it); }
			break;
		}
		case 3: { // the sweep of router.c: walk the slots, remove (by key) every entry whose value satisfies a predicate
			uint32_t size = 1u << o->order;
			int parity = op.val & 1;
			for (uint32_t i = 0; i < size; i++) {
				if (!o->slot_used(t, i)) continue;
				void *sv = o->slot_value(t, i);
				int vi = (int)(((uintptr_t)sv - 0x1000) / 16);
				if ((vi & 1) != parity) continue;
				void *v = nullptr; int r = o->remove(t, o->slot_key(t, i), &v, 1);
				if (r != HT_SUCCESS) { why = "sweep: remove of an occupied slot's key failed"; return false; }
				if (v != sv) { why = "sweep: removed a different entry than the slot's"; return false; }
				bool found = false;
				for (auto it = model.begin(); it != model.end(); ++it) if (val(it->second) == sv) { // identify by key content
					uint64_t k = u->keys[it->first];
					(void)k; found = true; break;
				}
				if (!found) { why = "sweep: slot held a value the model does not know"; return false; }
			}
			for (auto it = model.begin(); it != model.end();) { if ((it->second & 1) == parity) it = model.erase(it); else ++it; }
			break;
		}
		case 4: {
			if (o->type == 0) break;
			int r = o->put(t, o->type == 1 ? 0xFFFFFFFFull : UINT64_MAX, val(1), nullptr, 0);
			if (r != HT_KEYINVAL) { why = "invalid key accepted"; return false; }
			break;
		}
		}
		return verify_all(why);
	}
};

struct Case { int type, order, nkeys, cluster; uint32_t useed; std::vector<TOp> ops; };

static js::Value case_json(const Case &c)
{
	js::Value o = js::Value::obj();
	o.set("type", js::Value::num(c.type)); o.set("order", js::Value::num(c.order)); o.set("nkeys", js::Value::num(c.nkeys)); o.set("cluster", js::Value::num(c.cluster)); o.set("useed", js::Value::num(c.useed));
	js::Value a = js::Value::arr();
	for (auto &op : c.ops) { js::Value e = js::Value::arr(); e.push(js::Value::str(kname[op.kind])); e.push(js::Value::num(op.key)); e.push(js::Value::num(op.val)); e.push(js::Value::num(op.flags)); a.push(e); }
	o.set("ops", a);
	return o;
}
static bool case_from(const js::Value &v, Case &c)
{
	if (!v.is_obj() || !v.get("ops")) return false;
	c.type = scen::geti(v, "type"); c.order = scen::geti(v, "order", 4); c.nkeys = scen::geti(v, "nkeys", 5); c.cluster = scen::geti(v, "cluster"); c.useed = (uint32_t)scen::geti(v, "useed");
	for (auto &e : v.get("ops")->a) { TOp op{0, 0, 0, 0}; for (int k = 0; k < 5; k++) if (e.a[0].s == kname[k]) op.kind = k; op.key = (int)e.a[1].d; op.val = (int)e.a[2].d; op.flags = (int)e.a[3].d; c.ops.push_back(op); }
	return true;
}

static bool run_case(const Case &c, std::string &why, bool *nontrivial, int *flags = nullptr)
{
	Universe u; build_universe(u, ops_for(c.type, c.order), c.nkeys, c.useed, c.cluster);
	if (u.keys.empty()) return true;
	Runner r(u.o, &u);
	for (size_t i = 0; i < c.ops.size(); i++) if (!r.apply(c.ops[i], why)) { why = "op " + std::to_string(i) + " (" + kname[c.ops[i].kind] + "): " + why; return false; }
	if (nontrivial) *nontrivial = r.displaced || r.wrapped || r.refused;
	if (flags) *flags = (r.displaced ? 1 : 0) | (r.wrapped ? 2 : 0) | (r.refused ? 4 : 0);
	return true;
}

// ---- exhaustive: all sequences up to `depth` over `nkeys` colliding keys, deduplicated by (table image, model, depth)
struct Exh { long nodes = 0, states = 0; std::string why; Case failing; };
static void table_copy(const ht_ops *o, void *dst, void *src) { memcpy(dst, src, o->entry_size << o->order); }

static bool exhaustive(int type, int order, int nkeys, int depth, int cluster, Exh &ex)
{
	const ht_ops *o = ops_for(type, order);
	Universe u; build_universe(u, o, nkeys, 7, cluster);
	std::vector<TOp> alphabet;
	for (int k = 0; k < nkeys; k++) { alphabet.push_back({0, k, k * 2 + 1, 2}); alphabet.push_back({0, k, k * 2 + 2, 0}); alphabet.push_back({2, k, 0, 2}); }
	alphabet.push_back({3, 0, 1, 0});
	std::unordered_set<std::string> seen;
	struct Node { std::vector<unsigned char> img; std::map<int, int> model; std::vector<TOp> path; };
	std::deque<Node> work;
	{ Runner r(o, &u); Node n; n.img.assign((unsigned char *)r.t, (unsigned char *)r.t + (o->entry_size << order)); work.push_back(n); }
	while (!work.empty()) {
		Node n = work.front(); work.pop_front();
		if ((int)n.path.size() >= depth) continue;
		for (auto &op : alphabet) {
			Runner r(o, &u);
			memcpy(r.t, n.img.data(), n.img.size()); r.model = n.model;
			std::string why;
			ex.nodes++;
			if (!r.apply(op, why)) { ex.why = why; ex.failing = Case{type, order, nkeys, cluster, 7, n.path}; ex.failing.ops.push_back(op); return false; }
			std::string key((const char *)r.t, o->entry_size << order);
			key += "|" + std::to_string(n.path.size() + 1);
			if (!seen.insert(key).second) continue;
			ex.states++;
			Node m; m.img.assign((unsigned char *)r.t, (unsigned char *)r.t + (o->entry_size << order)); m.model = r.model; m.path = n.path; m.path.push_back(op);
			work.push_back(m);
		}
	}
	return true;
}

static std::string read_file(const std::string &path) { std::ifstream f(path, std::ios::binary); std::stringstream ss; ss << f.rdbuf(); return ss.str(); }

int main(int argc, char **argv)
{
	std::string out, replay, mode = "random"; long cases = 2000; unsigned long seed = 1; int size = 100;
	for (int i = 1; i < argc; i++) {
		std::string a = argv[i];
		auto next = [&]() { return i + 1 < argc ? std::string(argv[++i]) : std::string(); };
		if (a == "--out") out = next(); else if (a == "--replay") replay = next(); else if (a == "--cases") cases = atol(next().c_str());
		else if (a == "--seed") seed = strtoul(next().c_str(), nullptr, 10); else if (a == "--size") size = atoi(next().c_str()); else if (a == "--mode") mode = next(); else if (a == "--variant") next();
	}
	auto t0 = std::chrono::steady_clock::now();
	long evaluations = 0; std::unordered_set<uint64_t> nontrivial; std::map<std::string, long> labels;
	std::vector<js::Value> violations, samples;
	auto record_violation = [&](const Case &c, const std::string &why) {
		js::Value v = js::Value::obj(); v.set("signature", js::Value::str("C17/map-semantics")); v.set("detail", js::Value::str(why)); v.set("case", case_json(c));
		std::string dir = std::string(getenv("VERIF_ROOT") ? getenv("VERIF_ROOT") : "/verif") + "/replays/C17/found"; std::string cmd = "mkdir -p " + dir; if (system(cmd.c_str())) {}
		char name[40]; snprintf(name, sizeof name, "%016llx", (unsigned long long)scen::fnv(js::dump(case_json(c))));
		std::string path = dir + "/" + name + ".json"; { std::ofstream f(path); f << js::dump(v); }
		v.set("replay", js::Value::str(path)); violations.push_back(v);
		printf("FOUND C17/map-semantics %s %s\n", why.c_str(), path.c_str());
	};
	if (!replay.empty()) {
		js::Value v; js::parse(read_file(replay), v); Case c;
		if (!case_from(v.get("case") ? *v.get("case") : v, c)) { fprintf(stderr, "bad replay\n"); return 2; }
		std::string why; bool nt;
		if (!run_case(c, why, &nt)) { printf("FAIL C17/map-semantics: %s\n", why.c_str()); return 1; }
		printf("PASS replay %s\n", replay.c_str());
		return 0;
	}
	if (mode == "exhaustive") {
		// --cases selects the slice: index = type*3 + (order-2); -1 = all nine
		for (int type = 0; type < 3; type++) for (int order = 2; order <= 4; order++) {
			if (cases >= 0 && cases < 9 && cases != type * 3 + (order - 2)) continue;
			for (int cluster = 0; cluster < 2; cluster++) {
				Exh ex;
				bool ok = exhaustive(type, order, 5, size > 0 && size < 12 ? size : 6, cluster, ex);
				evaluations += ex.nodes; labels["exhaustive_states"] += ex.states;
				for (long i = 0; i < ex.states; i++) nontrivial.insert(((uint64_t)type << 60) ^ ((uint64_t)order << 52) ^ ((uint64_t)cluster << 48) ^ (uint64_t)i);
				if (!ok) { record_violation(ex.failing, ex.why); break; }
			}
		}
		labels["exhaustive_small_orders"] = 1;
	} else {
		std::string params = "seed=" + std::to_string(seed) + " max_success=" + std::to_string(cases) + " max_size=" + std::to_string(size);
		setenv("RC_PARAMS", params.c_str(), 1);
		auto opg = rc::gen::apply([](int kind, int key, int val, int flags) { return TOp{kind, key, val, flags}; },
		                          rc::gen::weightedElement<int>({{10, 0}, {3, 1}, {4, 2}, {1, 3}, {1, 4}}), rc::gen::resize(100, rc::gen::inRange(0, 400)), rc::gen::resize(100, rc::gen::inRange(0, 64)), rc::gen::resize(100, rc::gen::inRange(0, 4)));
		Case last; std::string lastwhy; bool have = false;
		bool ok = rc::check("C17", [&]() {
			if (budget::over()) { budget::skipped()++; return; }
			Case c;
			c.type = *rc::gen::resize(100, rc::gen::inRange(0, 3));
			c.order = *rc::gen::resize(100, rc::gen::weightedElement<int>({{2, 2}, {2, 3}, {2, 4}, {1, 5}, {2, 6}, {4, 7}, {3, 8}, {1, 9}, {1, 10}, {1, 11}, {1, 12}, {1, 13}}));
			c.cluster = *rc::gen::resize(100, rc::gen::inRange(0, 4));
			uint32_t tsize = 1u << c.order;
			int maxkeys = (int)std::min<uint32_t>(tsize + 8, 120);
			c.nkeys = *rc::gen::resize(100, rc::gen::inRange(3, maxkeys + 1));
			c.useed = (uint32_t)*rc::gen::resize(100, rc::gen::inRange(0, 50));
			c.ops = *rc::gen::container<std::vector<TOp>>(opg);
			// a fill phase makes displacement and refusal reachable: many distinct keys of one cluster
			int fill = *rc::gen::resize(100, rc::gen::inRange(0, 3));
			if (fill) { std::vector<TOp> pre; for (int k = 0; k < c.nkeys; k++) if (fill == 2 || (k % 3)) pre.push_back({0, k, k, 0}); c.ops.insert(c.ops.begin(), pre.begin(), pre.end()); }
			std::string why; bool nt = false;
			evaluations++;
			int fl = 0;
			bool pass = run_case(c, why, &nt, &fl);
			if (fl & 1) labels["displacement"]++; if (fl & 2) labels["wrap-around"]++; if (fl & 4) labels["refused-full"]++;
			labels[std::string("order") + std::to_string(c.order)]++; labels[std::string("type") + std::to_string(c.type)]++;
			if (pass && nt) { uint64_t h = scen::fnv(js::dump(case_json(c))); if (nontrivial.insert(h).second && samples.size() < 3 && nontrivial.size() % 53 == 1) { Case s = c; if (s.ops.size() > 40) s.ops.resize(40); samples.push_back(case_json(s)); } }
			if (!pass) { last = c; lastwhy = why; have = true; RC_FAIL(why); }
		});
		if (!ok && have) record_violation(last, lastwhy);
	}
	double wall = std::chrono::duration<double>(std::chrono::steady_clock::now() - t0).count();
	js::Value o = js::Value::obj();
	o.set("property", js::Value::str("C17")); o.set("evaluations", js::Value::num((double)evaluations));
	o.set("nontrivial_count", js::Value::num((double)nontrivial.size())); o.set("nontrivial_hashes", js::Value::arr());
	js::Value l = js::Value::obj(); for (auto &x : labels) l.set(x.first, js::Value::num((double)x.second)); o.set("labels", l);
	o.set("stat", js::Value::obj()); o.set("known_hits", js::Value::obj());
	js::Value sm = js::Value::arr(); for (auto &x : samples) sm.push(x); o.set("samples", sm);
	js::Value vs = js::Value::arr(); for (auto &x : violations) vs.push(x); o.set("violations", vs);
	o.set("wall_s", js::Value::num(wall));
	if (!out.empty()) { std::ofstream f(out); f << js::dump(o); }
	return violations.empty() ? 0 : 1;
}
