#ifndef C17_OPS_H
#define C17_OPS_H
#include <stdint.h>
#include <stddef.h>
#ifdef __cplusplus
extern "C" {
#endif
struct ht_ops {
	int order; int type; size_t entry_size;
	void *(*create)(void);
	void (*destroy)(void *);
	int (*put)(void *, uint64_t key, void *value, void **prev, int want_prev);
	int (*get)(void *, uint64_t key, void **value);
	int (*remove)(void *, uint64_t key, void **value, int want_value);
	uint32_t (*home)(uint64_t key);
	int (*slot_used)(void *, uint32_t i);
	uint64_t (*slot_key)(void *, uint32_t i);
	uint32_t (*slot_hop)(void *, uint32_t i);
	void *(*slot_value)(void *, uint32_t i);
};
#ifdef __cplusplus
}
#endif
#endif
