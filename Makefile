# Framework build (setup_cmd). Everything here is independent of /repo's sources:
# the system under test is compiled by bin/build_sut.py at check time.
CXX      := clang++
CXXFLAGS := -std=gnu++17 -g -O1 -fsanitize=address,undefined -fno-omit-frame-pointer -Wall -Wno-unused-function
B        := build/fw
PROPS    := $(patsubst props/%.cpp,$(B)/%.o,$(wildcard props/*.cpp))
HDRS     := $(wildcard fw/*.hpp)

setup: $(B)/simk.o $(PROPS)

$(B)/simk.o: fw/simk.cpp $(HDRS)
	@mkdir -p $(B)
	$(CXX) $(CXXFLAGS) -c $< -o $@

$(B)/%.o: props/%.cpp $(HDRS)
	@mkdir -p $(B)
	$(CXX) $(CXXFLAGS) -c $< -o $@

clean:
	rm -rf build

.PHONY: setup clean
