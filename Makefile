# Framework build (setup_cmd). Everything here is independent of /repo's sources:
# the system under test is compiled by bin/build_sut.py at check time.
CXX      := clang++
CXXFLAGS := -std=gnu++17 -g -O1 -fsanitize=address,undefined -fno-omit-frame-pointer -Wall -Wno-unused-function
B        := build/fw
PROPS    := $(patsubst props/%.cpp,$(B)/%.o,$(wildcard props/*.cpp))
MODS     := $(patsubst modules/%.cpp,$(B)/mod_%.o,$(wildcard modules/*.cpp)) $(patsubst modules/%.cpp,$(B)/mod_%_fast.o,$(wildcard modules/*.cpp))
HDRS     := $(wildcard fw/*.hpp)

setup: $(B)/simk.o $(PROPS) $(MODS)

$(B)/simk.o: fw/simk.cpp $(HDRS)
	@mkdir -p $(B)
	$(CXX) $(CXXFLAGS) -c $< -o $@

$(B)/%.o: props/%.cpp $(HDRS)
	@mkdir -p $(B)
	$(CXX) $(CXXFLAGS) -c $< -o $@

$(B)/mod_%.o: modules/%.cpp $(HDRS)
	@mkdir -p $(B)
	$(CXX) $(CXXFLAGS) -O2 -c $< -o $@

$(B)/mod_%_fast.o: modules/%.cpp $(HDRS)
	@mkdir -p $(B)
	$(CXX) -std=gnu++17 -g -O2 -Wall -Wno-unused-function -c $< -o $@

clean:
	rm -rf build

.PHONY: setup clean
