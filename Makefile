# Framework build (setup_cmd). Everything here is independent of /repo's sources:
# the system under test is compiled by bin/build_sut.py at check time.
setup:
	python3 bin/build_fw.py

clean:
	rm -rf build

.PHONY: setup clean
