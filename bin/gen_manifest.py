#!/usr/bin/env python3
"""Regenerate MANIFEST.json from bin/registry.py (claimed checks) and properties.jsonl (the rest -> not_applicable)."""
import json, os, sys
sys.path.insert(0, os.path.dirname(os.path.abspath(__file__)))
import registry
VERIF = registry.VERIF
props = [json.loads(l) for l in open(os.path.join(VERIF, "properties.jsonl"))]
checks = []
for pid, spec in registry.PROPS.items():
    checks.append({
        "property_id": pid,
        "quick_cmd": "bin/check %s --tier quick" % pid,
        "thorough_cmd": "bin/check %s --tier thorough" % pid,
        "evidence_file": "evidence/%s.json" % pid,
        "replay_cmd_template": "bin/check %s --replay {path}" % pid,
        "engine": spec.get("engine", "scenario-pbt"),
        "level_claimed": {"category": spec["level"], "text": spec.get("level_text", registry.DEFAULT_LEVEL_TEXT), "design_ref": "DESIGN.md section 3, " + pid},
        "level_note": spec.get("level_note", registry.DEFAULT_LEVEL_NOTE),
        "technique": spec.get("technique", "stateful property-based testing (rapidcheck) of the whole daemon in a simulated kernel against a reference model; fork-per-case, ASan+UBSan"),
    })
engines = [
    {"name": "scenario-pbt", "path": "fw/", "serves_properties": [p for p, s in registry.PROPS.items() if s.get("engine", "scenario-pbt") == "scenario-pbt"],
     "kind_free_text": "rapidcheck-generated scenarios (operation sequences, schedules, faults) executed fork-per-case against the whole daemon linked to a simulated kernel, judged by a reference model and invariants; failures shrink to a JSON replay"},
    {"name": "module-pbt", "path": "modules/", "serves_properties": [p for p, s in registry.PROPS.items() if s.get("engine") == "module-pbt"],
     "kind_free_text": "exhaustive enumeration + rapidcheck + libFuzzer on the real module sources with an independent reference"},
]
m = {
    "version": 1,
    "setup_cmd": "make -j16 -C /verif setup",
    "hooks": {"guard": "CJET_VERIF",
              "enable": "bin/build_sut.py compiles every source listed in /repo/src/CMakeLists.txt from the working tree with -DCJET_VERIF (clang, ASan+UBSan) and redirects kernel-facing symbols to the simulated kernel with objcopy; no source hook exists, so no #ifdef CJET_VERIF appears in /repo",
              "baseline_off_cmd": "cmake --build /repo/_build -j16 && ctest --test-dir /repo/_build -j8 --timeout 900",
              "source_commits": [], "add_only": True},
    "engines": [e for e in engines if e["serves_properties"]],
    "checks": checks,
    "not_applicable": [{"property_id": p["id"], "reason": registry.NOT_APPLICABLE.get(p["id"], "check not built yet in this session (work in progress, see DESIGN.md section 9)")}
                       for p in props if p["id"] not in registry.PROPS],
    "notes": "See DESIGN.md. KNOWN_FINDINGS.jsonl lists open findings (JSON lines) and repaired defects ('fixed:' lines). Replays: replays/<id>/*.json.",
}
json.dump(m, open(os.path.join(VERIF, "MANIFEST.json"), "w"), indent=1)
print("claimed:", sorted(registry.PROPS), "not_applicable:", [x["property_id"] for x in m["not_applicable"]])
