#!/usr/bin/env python3
"""Regenerate MANIFEST.json from bin/registry.py (claimed checks) and properties.jsonl (the rest -> not_applicable)."""
import json, os, sys
sys.path.insert(0, os.path.dirname(os.path.abspath(__file__)))
import registry
VERIF = registry.VERIF
props = [json.loads(l) for l in open(os.path.join(VERIF, "properties.jsonl"))]
D = "of the whole daemon (real main, epoll loop, transports) in a simulated kernel; fork-per-case, ASan+UBSan, shrunk JSON replays"
TECH = {
 "C01": "stateful model-based property testing (rapidcheck) plus coverage-guided model-based fuzzing (libFuzzer, in-process daemon) " + D + "; oracle: reference model per step + replica rebuilt from received notifications",
 "C02": "grammar-based property testing (rapidcheck) of request shapes/ids/batches " + D + "; oracle: reference model of the response discipline",
 "C03": "stateful model-based property testing (rapidcheck) plus coverage-guided model-based fuzzing (libFuzzer) of routed set/call histories " + D + "; oracle: model of the in-flight table, payload equality, id uniqueness",
 "C04": "stateful model-based property testing (rapidcheck) over adversarial/colliding paths " + D + "; oracle: reference map vs observer get + fetch-all replica after every step",
 "C05": "stateful property testing (rapidcheck) plus coverage-guided model-based fuzzing (libFuzzer) of connection ends in every protocol phase " + D + "; oracle: reference model for the other peers + descriptor-hygiene monitor",
 "C06": "structure-aware hostile-input property testing (rapidcheck) plus coverage-guided fuzzing (libFuzzer, in-process daemon) " + D + "; oracle: sanitizers, witness connection served, probe served",
 "C07": "stateful property testing (rapidcheck) with injected syscall failures plus coverage-guided fuzzing (libFuzzer) " + D + "; oracle: idle-baseline invariant, clean exit, hygiene monitor, heap cap",
 "C08": "model-based property testing (rapidcheck) over generated credential files, access declarations and origins " + D + "; oracle: group-intersection model + secret scan of all output",
 "C09": "metamorphic property testing (rapidcheck): one session under 4 generated delivery schedules must give identical transcripts " + D + "; plus reference model",
 "C10": "fault-injecting property testing (rapidcheck) of kernel write behaviours " + D + "; oracle: accepted stream is an in-order concatenation of the frames observed at writev",
 "C11": "fault-injecting stateful property testing (rapidcheck) with faulty peers " + D + "; oracle: fault-aware reference model for healthy peers",
 "C12": "grammar-based property testing (rapidcheck) of upgrades and frame sequences " + D + "; oracle: RFC 6455 judge (own SHA-1/base64/frame codec) + shared model for both transports",
 "C13": "mutation-based property testing (rapidcheck): valid upgrade with exactly one generated defect " + D + "; oracle: never 101, connection ends, baseline restored",
 "C14": "stateful property testing (rapidcheck) with harness-owned clock and generated batch orders (expiry racing reply/disconnect) " + D + "; oracle: deadline model, either race order, sanitizers",
 "C15": "exhaustive allocation-fault enumeration over rapidcheck-generated scenarios " + D + "; oracle: no crash, at most one response per id, still serving, baseline restored",
 "C16": "differential property testing (rapidcheck) of generated fetch rules over related paths " + D + "; oracle: independent matcher implementation for get and fetch",
 "C20": "crash-point and fault enumeration over rapidcheck-generated authenticate/passwd histories " + D + "; oracle: authorisation model + every durable file image loads as exactly old or new",
}
checks = []
for pid, spec in registry.PROPS.items():
    checks.append({
        "property_id": pid,
        "quick_cmd": "bin/check %s --tier quick" % pid,
        "thorough_cmd": "bin/check %s --tier thorough" % pid,
        "evidence_file": "evidence/%s.json" % pid,
        "replay_cmd_template": "bin/check %s --replay {path}" % pid,
        "engine": spec.get("engine", "scenario-pbt"),
        "level_claimed": {"category": spec["level"], "text": spec.get("level_text", registry.DEFAULT_LEVEL_TEXT), "design_ref": "DESIGN.md section 3, " + pid},
        "level_note": spec.get("level_note", registry.DEFAULT_LEVEL_NOTE),
        "technique": spec.get("technique", TECH.get(pid, "stateful property-based testing (rapidcheck) of the whole daemon in a simulated kernel against a reference model; fork-per-case, ASan+UBSan")),
    })
engines = [
    {"name": "scenario-pbt", "path": "fw/", "serves_properties": [p for p, s in registry.PROPS.items() if s.get("engine", "scenario-pbt") == "scenario-pbt"],
     "kind_free_text": "rapidcheck-generated scenarios (operation sequences, schedules, faults) executed fork-per-case against the whole daemon linked to a simulated kernel, judged by a reference model and invariants; failures shrink to a JSON replay"},
    {"name": "module-pbt", "path": "modules/", "serves_properties": [p for p, s in registry.PROPS.items() if s.get("engine") == "module-pbt"],
     "kind_free_text": "exhaustive enumeration + rapidcheck on the real module sources with an independent reference"},
    {"name": "daemon-fuzz", "path": "fuzz/", "serves_properties": [p for p, s in registry.PROPS.items() if s.get("fuzz")],
     "kind_free_text": "coverage-guided libFuzzer target: the whole daemon in the simulated kernel, in-process, bytes decoded structure-aware into a scenario; semantic oracle inside the target; crash artifacts become scenario replays"},
]
m = {
    "version": 1,
    "setup_cmd": "make -j16 -C /verif setup",
    "hooks": {"guard": "CJET_VERIF",
              "enable": "bin/build_sut.py compiles every source listed in /repo/src/CMakeLists.txt from the working tree with -DCJET_VERIF (clang, ASan+UBSan) and redirects kernel-facing symbols to the simulated kernel with objcopy; no source hook exists, so no #ifdef CJET_VERIF appears in /repo",
              "baseline_off_cmd": "cmake --build /repo/_build -j16 && ctest --test-dir /repo/_build -j8 --timeout 900",
              "source_commits": [], "add_only": True},
    "engines": [e for e in engines if e["serves_properties"]],
    "checks": checks,
    "not_applicable": [{"property_id": p["id"], "reason": registry.NOT_APPLICABLE.get(p["id"], "not claimed")}
                       for p in props if p["id"] not in registry.PROPS],
    "notes": "See DESIGN.md. KNOWN_FINDINGS.jsonl lists open findings (JSON lines) and repaired defects ('fixed:' lines). Replays: replays/<id>/*.json.",
}
json.dump(m, open(os.path.join(VERIF, "MANIFEST.json"), "w"), indent=1)
print("claimed:", sorted(registry.PROPS), "not_applicable:", [x["property_id"] for x in m["not_applicable"]])
