#!/bin/bash
# Run quick checks against a scratch worktree that has a seeded change applied (does not touch /repo or /verif/evidence).
# usage: try_wt.sh <worktree> <ID>...
wt=$1; shift
for id in "$@"; do
  VERIF_REPO=$wt VERIF_EVIDENCE_DIR=/verif/build/tmp/evidence-trial /verif/bin/check $id --tier quick --scale ${SCALE:-1} 2>&1 | grep -E "^C[0-9]+ quick|VIOLATION|^  " | cut -c1-260 | head -6
done; rm -rf /verif/build/sut-* /verif/build/mod-*
