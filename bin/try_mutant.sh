#!/bin/bash
# Apply a seeded change to /repo, run the given checks (quick), undo. usage: try_mutant.sh <patch> <ID>...
patch=$1; shift
cd /repo && git diff --quiet || { echo "/repo not clean"; exit 2; }
git -C /repo apply $patch || { echo "patch does not apply"; exit 2; }
for id in "$@"; do
  /verif/bin/check $id --tier quick --scale ${SCALE:-1} 2>&1 | grep -E "^C[0-9]+ quick|VIOLATION|^  " | cut -c1-260 | head -6
done
git -C /repo checkout -- .
rm -f /verif/evidence/*.json.tmp
