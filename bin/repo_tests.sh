#!/bin/bash
# Rebuild the repository's own build tree and run its unedited test suite (guard off).
set -e -o pipefail
cmake --build /repo/_build -j16 > /tmp/repo_build.log 2>&1 || { tail -30 /tmp/repo_build.log; echo "BUILD FAILED"; exit 1; }
ctest --test-dir /repo/_build -j8 --timeout 900 2>&1 | tail -5
