#!/bin/bash
# dev helper: build framework objects and link one property driver against the SUT variant
set -e
prop=$1; variant=${2:-default}
make -s -C /verif setup
SUT=$(python3 /verif/bin/build_sut.py $variant | head -1)
clang++ -fsanitize=address,undefined -g /verif/build/fw/$prop.o /verif/build/fw/simk.o $SUT/*.o -lrapidcheck -lcrypt -lm -lz -o /verif/build/${prop}_$variant
