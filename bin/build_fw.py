#!/usr/bin/env python3
"""Build the framework objects (independent of /repo's sources). Up-to-date checks use content hashes,
not modification times: the sandbox clock is not monotonic."""
import hashlib, os, subprocess, sys, glob
from concurrent.futures import ThreadPoolExecutor
VERIF = os.path.dirname(os.path.dirname(os.path.abspath(__file__)))
B = os.path.join(VERIF, "build", "fw")
CXX = ["clang++", "-std=gnu++17", "-g", "-fno-omit-frame-pointer", "-Wall", "-Wno-unused-function"]
SAN = ["-O1", "-fsanitize=address,undefined"]

def digest(paths, extra):
    h = hashlib.sha256()
    for p in sorted(paths):
        h.update(p.encode()); h.update(open(p, "rb").read())
    h.update(repr(extra).encode())
    return h.hexdigest()

def main():
    os.makedirs(B, exist_ok=True)
    hdrs = glob.glob(os.path.join(VERIF, "fw", "*.hpp")) + glob.glob(os.path.join(VERIF, "modules", "*.h"))
    jobs = []
    jobs.append((os.path.join(VERIF, "fw", "simk.cpp"), os.path.join(B, "simk.o"), CXX + SAN))
    for src in sorted(glob.glob(os.path.join(VERIF, "props", "*.cpp"))):
        jobs.append((src, os.path.join(B, os.path.basename(src)[:-4] + ".o"), CXX + SAN))
    for src in sorted(glob.glob(os.path.join(VERIF, "modules", "*.cpp"))):
        name = os.path.basename(src)[:-4]
        if name.endswith("_fuzz"):
            jobs.append((src, os.path.join(B, "mod_" + name + ".o"), CXX + ["-O1", "-fsanitize=fuzzer-no-link,address,undefined"]))
            continue
        jobs.append((src, os.path.join(B, "mod_" + name + ".o"), CXX + ["-O2", "-fsanitize=address,undefined"]))
        jobs.append((src, os.path.join(B, "mod_" + name + "_fast.o"), CXX + ["-O2"]))
    # libFuzzer targets over the assembled daemon: the harness itself is not coverage-instrumented (only the daemon's objects guide the fuzzer)
    for src in sorted(glob.glob(os.path.join(VERIF, "fuzz", "*.cpp"))):
        jobs.append((src, os.path.join(B, "fuzz_" + os.path.basename(src)[:-4] + ".o"), CXX + SAN))
    todo = []
    for src, obj, flags in jobs:
        d = digest([src] + hdrs, flags)
        hf = obj + ".hash"
        if os.path.exists(obj) and os.path.exists(hf) and open(hf).read() == d:
            continue
        todo.append((src, obj, flags, d))
    def run(job):
        src, obj, flags, d = job
        r = subprocess.run(flags + ["-c", src, "-o", obj], capture_output=True, text=True)
        if r.returncode != 0:
            return "FAILED %s\n%s" % (src, r.stderr[-4000:])
        open(obj + ".hash", "w").write(d)
        return None
    with ThreadPoolExecutor(max_workers=16) as ex:
        errs = [e for e in ex.map(run, todo) if e]
    for e in errs:
        print(e)
    return 1 if errs else 0

if __name__ == "__main__":
    sys.exit(main())
