"""Per-property configuration of the checks (drivers, variants, budgets, evidence texts)."""
import os, subprocess

VERIF = os.path.dirname(os.path.dirname(os.path.abspath(__file__)))
REPO = os.environ.get("VERIF_REPO", "/repo")

COMMON_ASSUMPTIONS = [
    "the daemon runs inside a simulated kernel (descriptors, edge-triggered epoll, timerfd, clock, files, allocator) that models Linux semantics; behaviour depending on anything it does not model is outside",
    "objects are compiled from /repo's working tree with clang 14 -O1 + AddressSanitizer + UndefinedBehaviorSanitizer on x86-64; linux/random.c is replaced by a seeded generator",
    "the reference model (fw/model.hpp) and the harness codecs (fw/json.hpp, fw/codec.hpp) are trusted",
    "a case that hits the per-case wall-clock limit is counted as timed out, never as a violation",
]

def scen(driver, variants, quick, thorough, rule, level="exploration", **kw):
    d = dict(driver=driver, variants=variants, quick=quick, thorough=thorough, rule=rule, level=level)
    d.update(kw)
    return d

PROPS = {
    "C01": scen("c01", ["default", "default", "default", "tiny"],
                quick=dict(cases=1500, size=60), thorough=dict(cases=40000, size=90, budget_s=3000),
                rule="rapidcheck-generated multi-peer histories of add/remove/change/fetch/unfetch/connect/disconnect over raw, local-socket and "
                     "WebSocket peers with random event-batch grouping; every step is judged against the reference model and the per-fetch replica "
                     "rebuilt from received notifications. Non-trivial = at least one fetch, at least two notifications and at least one quiescent "
                     "point where a replica with >=2 entries was compared; distinct = distinct scenario hash (per variant)."),
}

def plan_workers(spec, tier, nproc):
    t = spec[tier]
    vs = spec["variants"]
    plan = []
    for i in range(nproc):
        v = vs[i % len(vs)]
        plan.append(dict(variant=v, cases=t["cases"], size=t["size"], extra=t.get("extra", [])))
    return plan

def build_module(prop, variant):
    raise SystemExit("no module driver registered for " + prop)
