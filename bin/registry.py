"""Per-property configuration of the checks (drivers, variants, budgets, evidence texts)."""
import os, subprocess

VERIF = os.path.dirname(os.path.dirname(os.path.abspath(__file__)))
REPO = os.environ.get("VERIF_REPO", "/repo")

COMMON_ASSUMPTIONS = [
    "the daemon runs inside a simulated kernel (descriptors, edge-triggered epoll, timerfd, clock, files, allocator) that models Linux semantics; behaviour depending on anything it does not model is outside",
    "objects are compiled from /repo's working tree with clang 14 -O1 + AddressSanitizer + UndefinedBehaviorSanitizer on x86-64; linux/random.c is replaced by a seeded generator",
    "the reference model (fw/model.hpp) and the harness codecs (fw/json.hpp, fw/codec.hpp) are trusted",
    "a case that hits the per-case wall-clock limit is counted as timed out, never as a violation",
]

DEFAULT_LEVEL_TEXT = ("Generated histories (tens of thousands per quick run, far more in thorough) are executed against the assembled daemon; "
                      "every quiescent point is judged against a reference model. Sampling of an unbounded space, not exhaustive.")
DEFAULT_LEVEL_NOTE = "Trusts the simulated kernel's semantics, the harness codecs and the reference model; see evidence assumptions."
NOT_APPLICABLE = {}

def scen(driver, variants, quick, thorough, rule, level="exploration", **kw):
    d = dict(driver=driver, variants=variants, quick=quick, thorough=thorough, rule=rule, level=level)
    d.update(kw)
    return d

PROPS = {
    "C01": scen("c01", ["default", "default", "default", "tiny"],
                quick=dict(cases=1500, size=60), thorough=dict(cases=40000, size=90, budget_s=1500),
                fuzz=dict(mode="model", rules="model/,C01/,output/,serve/", quick=dict(workers=2, runs=8000, max_len=402), thorough=dict(workers=3, runs=1000000, max_len=402)),
                rule="rapidcheck-generated multi-peer histories of add/remove/change/fetch/unfetch/connect/disconnect over raw, local-socket and "
                     "WebSocket peers with random event-batch grouping; every step is judged against the reference model and the per-fetch replica "
                     "rebuilt from received notifications. Non-trivial = at least one fetch, at least two notifications and at least one quiescent "
                     "point where a replica with >=2 entries was compared; distinct = distinct scenario hash (per variant)."),
    "C03": scen("c03", ["default", "default", "tiny", "default"],
                quick=dict(cases=1500, size=60), thorough=dict(cases=40000, size=90, budget_s=1500),
                fuzz=dict(mode="model", rules="model/,C03/,output/,serve/", quick=dict(workers=2, runs=8000, max_len=402), thorough=dict(workers=3, runs=1000000, max_len=402)),
                rule="rapidcheck-generated histories of set/call by several callers to several owners with owner replies (result, error, duplicate, "
                     "forged id, another owner's id), timer expiry through the virtual clock, connects/disconnects of callers, owners and bystanders, "
                     "in the shipped and in a 4-slot routing-table configuration; every step is judged against the reference model (routed message at "
                     "the owner only, payload equality, one final answer with the original id, unique routed ids). 72 calls to one owner in single steps (routing-table overflow: every surplus request is answered with an error); Non-trivial = at least one request "
                     "was routed and concluded by reply, timeout or owner disconnect; in addition 2 (quick) / 3 (thorough) coverage-guided libFuzzer workers (fuzz/dfuzz.cpp, mode model: 5-byte records decoded into model-decidable operations with joins, same oracles, daemon in-process); in addition 2 (quick) / 3 (thorough) coverage-guided libFuzzer workers (fuzz/dfuzz.cpp, mode model: 5-byte records decoded into model-decidable operations with joins, same oracles, daemon in-process); distinct = scenario hash."),
    "C04": scen("c04", ["default", "default", "default", "tiny"],
                quick=dict(cases=700, size=60), thorough=dict(cases=20000, size=90, budget_s=1500),
                rule="rapidcheck-generated sequences of add/remove/change/set/call/get and single-defect malformed requests by several peers over an "
                     "adversarial path pool (empty, 215-byte, non-ASCII, quoted/escaped, paths sharing a home bucket of the 2^13 index) and arbitrary JSON "
                     "values; an observer connection holds a fetch-all and issues get after every operation, so the daemon's own element set is compared "
                     "with the reference map after every step. Non-trivial = at least one mutation refused for ownership/kind/existence and at least one "
                     "re-add of a path after its removal or its owner's disconnect; distinct = scenario hash."),
    "C15": scen("c15", ["default", "default", "default", "small"], level="fault_enumeration",
                quick=dict(cases=1, size=22), thorough=dict(cases=12, size=40, budget_s=1800),
                rule="rapidcheck-generated scenarios (raw + WebSocket + optional further peers; add/remove/change/fetch/unfetch/get/set/call/reply/config/info/"
                     "authenticate with a credential file/malformed requests/batches/invalid JSON/timer expiry/connects/ends by EOF, hang-up and reset, ended by "
                     "close-all or SIGTERM). For every scenario one clean execution counts the allocations N made after the idle baseline; then N executions "
                     "fail allocation k=0..N-1 in turn (complete single-fault enumeration per scenario), plus two double-fault executions; in the small variant the "
                     "64 KB heap cap additionally refuses by itself. Oracles per execution: no sanitizer report or crash, never more responses with an id than "
                     "requests carrying it, a fresh connection is served afterwards (retried if the fault hit the probe itself), after close-all accounted heap, "
                     "live blocks, peers, descriptors and timers are back at the baseline and nothing is left at exit. Failures are keyed by the failing "
                     "allocation's call chain (nm symbol table of the test binary). evaluations counts executions; distinct non-trivial = scenarios with >=20 "
                     "allocations after the baseline (distinct scenario hashes)."),
    "C16": scen("c16", ["default"],
                quick=dict(cases=1200, size=60), thorough=dict(cases=40000, size=100, budget_s=1500),
                rule="rapidcheck-generated families of 4-8 related paths (prefixes/suffixes/infixes/case variants of each other, non-ASCII, empty) and rule "
                     "objects (any multiset and order of the six matchers, operands derived from the paths by 9 transformations, caseInsensitive absent/true/false/"
                     "repeated/first/last, unknown names, mistyped operands, 12 and 14 matchers); every rule is used for get and for fetch (states and methods), "
                     "followed by a change and by re-use of the same fetch id; selections and events are compared with an independent matcher. "
                     "near misses of every matcher name and of the option key; Non-trivial = at least one well-formed rule selects a proper non-empty subset of the paths; every scenario holds complete routed exchanges and ends with a census by a fresh subscriber (every reported element has a shape some add/change asked for); distinct = scenario hash."),
    "C02": scen("c02", ["default", "default", "default", "tiny"],
                quick=dict(cases=1500, size=60), thorough=dict(cases=40000, size=100, budget_s=1500),
                rule="rapidcheck-generated request objects of 26 shapes (every dispatcher method, unknown/empty/non-string methods, missing, mistyped and "
                     "duplicated members, unsolicited response objects, neither-request-nor-response) crossed with 27 id values of every JSON type "
                     "(strings incl. empty/200-byte/escaped, integers around 2^31/2^32/2^53, fractions, exponent forms, null/bool/object/array, absent), single "
                     "and in batches of 0-4 members (optionally with a non-object member), mixed with ordinary add/fetch/set/call/reply traffic of 1-4 peers "
                     "and timer expiry; every transcript is compared with the reference model step by step (exactly one response with an equal id and one of "
                     "result/error on the requester's connection only, batch order, nothing for id-less requests and response objects). "
                     "Non-trivial = the scenario contains a batch of >=2 members, a non-numeric id, or an incoming response object; plus slow requesters (the kernel takes nothing while requests keep coming; default and tiny write buffer): a connection that is still open at the end has a response for every request answered while it is processed (gap oracle); distinct = scenario hash."),
    "C06": scen("c06", ["default", "default", "default", "tiny"],
                quick=dict(cases=900, size=50), thorough=dict(cases=40000, size=80, budget_s=1500),
                fuzz=dict(mode="c06", quick=dict(workers=4, runs=12000, max_len=1024), thorough=dict(workers=6, runs=1500000, max_len=2048)),
                rule="rapidcheck-generated hostile traffic on raw, local-socket and HTTP/WebSocket endpoints, several connections interleaved: request objects with a "
                     "valid skeleton and hostile members (every dispatcher method; ids, params, paths, values, timeouts from 0 to 1e400, access lists, fetch ids "
                     "of every JSON shape; keys duplicated, case-varied, empty, 120 bytes long; nesting up to 240 levels; 300-byte strings; invalid escapes and "
                     "UTF-8), batches, peer names of 10..400 bytes followed by logged errors, HTTP fragments incl. an extension offer with too many parameters, "
                     "WebSocket frames over all 16 opcodes x 32 flag combinations x 3 length encodings with payloads of 0..520 bytes, truncated frames, zero and "
                     "over-long length prefixes, random byte blobs, disconnects of every kind, timer expiry; under random read chunking (1/3/7 bytes), split "
                     "deliveries and event-batch orders. Oracle: no AddressSanitizer/UndefinedBehaviorSanitizer report, no signal, no early exit; a witness "
                     "connection that only sends valid requests stays open and gets every answer; a fresh connection is served at the end. Non-trivial = at "
                     "least two hostile messages or frames reached a protocol handler; distinct = scenario hash. (All other scenario-based checks run under the "
                     "same sanitizers and report crashes as violations of their own property.) In addition 4 (quick) / 6 (thorough) coverage-guided libFuzzer "
                     "workers run the whole daemon in-process (fuzz/dfuzz.cpp; edge coverage of the daemon's objects only): the input bytes are decoded into "
                     "connections, framed messages with verbatim payload, byte blobs, WebSocket frames, request templates around fuzzed params, symbolic valid "
                     "requests, ends, clock advances and read chunking; same oracle; half of the workers start from a seed corpus of valid sessions, half from "
                     "an empty corpus; a crash artifact counts only if it reproduces from the saved input; non-trivial there = >=2 messages/frames/blobs "
                     "delivered and the input not seen before."),
    "C07": scen("c07", ["default", "default", "small", "default"],
                quick=dict(cases=1200, size=60), thorough=dict(cases=40000, size=100, budget_s=1500),
                fuzz=dict(mode="c07", quick=dict(workers=2, runs=12000, max_len=1024), thorough=dict(workers=4, runs=1500000, max_len=2048)),
                rule="rapidcheck-generated connection histories over raw, local-socket and WebSocket peers (every request kind, malformed and hostile "
                     "requests, batches, raw byte blobs, repeated authenticate with a credential file, routed requests left in flight, abrupt ends) with "
                     "injected failures of fcntl/setsockopt/getsockname/epoll_ctl/timerfd_create/timerfd_settime, ended by closing all connections or by "
                     "SIGTERM with connections open; oracles: accounted heap, peer count, open descriptors, armed timers and live blocks equal the idle "
                     "baseline after close-all, nothing open/allocated after exit, exit status 0, descriptor-hygiene monitor silent, sanitizers silent. "
                     "80 calls to one owner so that its routing table overflows; once per scenario the allocator is exercised directly next to the cap (array allocations that do not fit must be refused); Non-trivial = >=3 connections, >=1 abnormal end or junk input, and >=1 routed request (timer) existed; distinct = scenario hash. "
                     "In addition 2 (quick) / 4 (thorough) coverage-guided libFuzzer workers (fuzz/dfuzz.cpp, the daemon in-process) apply the same baseline, "
                     "exit and hygiene oracles to byte-level generated sessions."),
    "C05": scen("c05", ["default"],
                quick=dict(cases=1500, size=60), thorough=dict(cases=40000, size=100, budget_s=1500),
                fuzz=dict(mode="model", rules="model/,C01/,C07/hygiene,output/,serve/", quick=dict(workers=2, runs=8000, max_len=402), thorough=dict(workers=3, runs=1000000, max_len=402)),
                rule="rapidcheck-generated histories in which peers on raw, local-socket and WebSocket transports own elements, hold fetches and are caller or "
                     "owner of routed requests, and then end: EOF, hang-up or reset, alone or in the same event batch as other traffic, after a truncated "
                     "length prefix / message / WebSocket frame, or dropped by the daemon for invalid JSON, an over-long message or a WebSocket protocol "
                     "violation; the other peers' transcripts are compared with the reference model (remove events, shutdown errors, nothing else), the "
                     "descriptor-hygiene monitor and the sanitizers watch the released connection. peers with unsent buffered output (write buffer filled, then one more response or a pong that cannot be queued); Non-trivial = the ending peer owned an element with "
                     "effects, or had a routed request in either role; in addition 2 (quick) / 3 (thorough) coverage-guided libFuzzer workers (fuzz/dfuzz.cpp, mode model: 5-byte records decoded into model-decidable operations with joins, same oracles, daemon in-process); distinct = scenario hash."),
    "C11": scen("c11", ["default"], level="fault_enumeration",
                quick=dict(cases=900, size=60), thorough=dict(cases=30000, size=100, budget_s=1500),
                rule="rapidcheck-generated multi-peer histories (add/remove/change/fetch/set/call/reply/timeouts) in which a generated subset of peers is made "
                     "faulty at generated moments: send path full forever (EAGAIN), kernel accepts only 3 or 40 more bytes, writes fail with EPIPE/ECONNRESET, "
                     "the peer sends garbage, or accept() fails with ECONNABORTED/EMFILE/ENFILE/EINTR/ENOMEM/EPROTO for the next connection attempts; one faulty "
                     "subscriber is registered before all healthy ones. A healthy observer holds a fetch-all and issues get after every operation. Healthy "
                     "peers' transcripts must equal the fault-aware model (a faulty peer may be dropped, which is then an ordinary disconnect; a requester "
                     "may get an error instead of a result only where a delivery to a faulty peer was involved, and the request must still have taken effect). "
                     "Non-trivial = at least one step delivered to a faulty peer while healthy peers were entitled to messages, or an injected accept failure "
                     "followed by further connects; distinct = scenario hash."),
    "C14": scen("c14", ["default"],
                quick=dict(cases=1200, size=60), thorough=dict(cases=40000, size=100, budget_s=1500),
                rule="rapidcheck-generated histories of set/call with request timeouts and element timeouts drawn from {absent, 0.001, 0.00099999, 0.0010001, "
                     "0.0005, 0, -1, 0.25, 0.5, 2, 7.5, 10, string, bool, null} in every precedence combination, owner replies, caller/owner disconnects and "
                     "virtual-clock advances straddling the deadlines; steps that join a clock advance with a reply or a disconnect put the timer expiry and "
                     "that event into one epoll batch in a generated order (both processing orders are accepted, exactly one answer is required). Oracles: "
                     "refusal exactly for non-numeric or <1ms timeouts, the duration passed to timerfd_settime equals request timeout, else element timeout, "
                     "else 5s (rel. tol. 1e-9), no timeout answer before the virtual deadline and one in the step that reaches it, late replies have no "
                     "effect, sanitizers silent. Non-trivial = at least one armed duration was compared and the scenario has a timeout or a race step; "
                     "distinct = scenario hash."),
    "C08": scen("c08", ["default", "default", "default", "local"],
                quick=dict(cases=900, size=60), thorough=dict(cases=30000, size=100, budget_s=1500),
                rule="rapidcheck-generated credential files (1-6 users, group universes of 3, 6 and the full 32 groups, random fetch/set/call group sets, DES/MD5/"
                     "SHA-256/SHA-512 hashes computed by the harness, admin/readonly flags) or no credential file; elements added with random access declarations "
                     "(including none and groups nobody holds); sequences of authenticate (right password, wrong password, unknown user, repeated, switching "
                     "users) / fetch / unfetch / get / set / call / reply on raw, local-socket and WebSocket connections from loopback and remote v4-mapped/v6 "
                     "origins; allocator fill byte drawn from {00,FF,BE,55,01,80}; in the local variant add must be accepted exactly from loopback and local-"
                     "socket origins. Oracle: the group-intersection reference model (responses, notifications, get results, routed delivery) plus a scan of every "
                     "byte sent and every log line for each password used (right or attempted). credential-carrying messages that are not valid JSON (cut after the password, stray characters); Non-trivial = credential file with >=2 users, >=1 successful "
                     "authenticate, >=1 element invisible to an authenticated peer or a denied set/call, and >=1 request by an unauthenticated peer (default); "
                     "adds from both local and remote origins (local variant); distinct = scenario hash."),
    "C19": dict(module=True, engine="module-pbt", driver="c19", variants=["default"], level="exploration", kinds=["asan"],
                repo_sources=["websocket.c", "compression.c", "http_connection.c", "http_server.c", "http-parser/http_parser.c", "base64.c", "sha1/sha1.c", "utf8_checker.c",
                              "alloc.c", "jet_string.c", "linux/jet_string.c", "posix/jet_string.c", "linux/jet_endian.c",
                              "zlib/adler32.c", "zlib/deflate.c", "zlib/inffast.c", "zlib/inflate.c", "zlib/inftrees.c", "zlib/trees.c", "zlib/zutil.c"],
                prefix_defined_in=["zlib/adler32.c", "zlib/deflate.c", "zlib/inffast.c", "zlib/inflate.c", "zlib/inftrees.c", "zlib/trees.c", "zlib/zutil.c"],
                shims=["c19_shim.c"], libs=["-lrapidcheck", "-lz"],
                quick=dict(plan=[dict(bin="asan", mode="random", cases=800, size=40) for _ in range(16)]),
                thorough=dict(plan=[dict(bin="asan", mode="random", cases=150000, size=80) for _ in range(16)], budget_s=1500),
                rule="a WebSocket server endpoint built from the real websocket.c, compression.c, http_connection.c and the vendored zlib (symbols prefixed) at "
                     "compression levels 0-3, driven over an in-memory reader by a client that uses the system zlib. rapidcheck generates the extension offer "
                     "(0-3 offers of permessage-deflate or other names with 0-4 parameters: client/server_max_window_bits with and without values 8-15, both "
                     "no_context_takeover flags, duplicates, out-of-range and unknown parameters) and a sequence of messages in both directions (text/binary; "
                     "empty, 1-9 bytes, repetitive and incompressible up to 500 bytes, JSON-like), client messages in 1-6 fragments of 1..400 bytes, some with a bit "
                     "flip, a truncation or random bytes in the compressed stream. Oracles: the response parameters are justified by a valid offer or server-"
                     "choosable (RFC 7692 7.1), values 8-15 and not above the offer, no duplicates; every uncorrupted client message reaches the application "
                     "callback unchanged exactly once; every server frame inflates (system zlib, negotiated window, context takeover as agreed) to the message "
                     "sent; corrupt streams cause no sanitizer report; no accounted memory and no LeakSanitizer leak remains. Each case runs in a forked child "
                     "under ASan+UBSan+LSan. fragment sizes include empty frames; messages abandoned half way; exchanges that fail after the extension offer was read (leak check on the refusal path); Non-trivial = extension accepted and a non-empty or fragmented or corrupted message was exchanged; distinct = case hash.",
                technique="rapidcheck differential testing against system zlib as independent peer, RFC 7692 legality predicate, sanitizers",
                level_text="Sampling of offers, payloads, fragmentations and corruptions against an independent codec; no exhaustive sub-domain.",
                level_note="Trusts system zlib 1.2.13, the harness frame codec and its reading of RFC 7692 7.1; the daemon itself runs compression level 0, so this is a module-level property."),
    "C20": scen("c20", ["default"], level="fault_enumeration",
                quick=dict(cases=200, size=40), thorough=dict(cases=6000, size=80, budget_s=1500),
                rule="rapidcheck-generated histories of authenticate / passwd on 2-5 connections over a credential file with plain, admin, read-only and "
                     "admin+read-only users (MD5/SHA-256/SHA-512 hashes made by the harness): own account, other accounts, unknown users, read-only targets, "
                     "unauthenticated callers, re-authentication with the password in force, a wrong one and the original one; before password changes the "
                     "generator injects an errno (EIO/ENOSPC/EDQUOT/ENOMEM) into the 1st/2nd ftruncate/write/open/rename/fsync or a short write of 0..900 bytes; "
                     "at the end a fresh connection tries the password in force and the original one for every user. The simulated file system records the "
                     "durable image of the credential file after every file-system call (crash point); every distinct image is loaded by a fresh daemon, "
                     "which must start and honour exactly the old or exactly the new credential set. The authorisation model decides every response; a refused "
                     "change must have no effect in memory and on disk. evaluations counts histories plus image probes. user names that are prefixes of each other; Non-trivial = at least one password "
                     "change was carried out and at least one durable image was probed; distinct = scenario hash."),
    "C09": scen("c09", ["default"],
                quick=dict(cases=450, size=60), thorough=dict(cases=12000, size=100, budget_s=1500),
                rule="rapidcheck-generated base sessions (2-5 raw/WebSocket/local-socket connections; valid requests, batches, hostile ids, zero-length prefixes, "
                     "over-long prefixes, strict prefixes of valid JSON texts as whole messages, long fillers rich in }, ] and quotes, clean disconnects; one "
                     "operation per event-loop round so that message order is fixed) each executed under its base schedule and three generated alternative "
                     "schedules drawn from: every read() limited to 1/2/3/5/17 bytes, every delivery split into two arrivals separated by an idle event loop "
                     "(cut anywhere, biased into the length prefix / frame header), a prefix of the next message of another connection arriving one round early, "
                     "seven junk patterns written into the unused tail of the read buffer after every short read. Oracles: all schedules give identical per-"
                     "connection transcripts and close decisions (routed ids renamed by order of appearance), and each execution also agrees with the reference "
                     "model (zero length skipped, over-long length ends the connection, incomplete JSON text rejected). evaluations counts executions (base + "
                     "variants). a further schedule dimension regroups consecutive messages (of distinct connections, or pipelined on one connection) into one readiness batch; Non-trivial = at least one alternative schedule differs from the base and >=3 messages were sent; distinct = scenario hash."),
    "C10": scen("c10", ["default", "tiny"], level="fault_enumeration",
                quick=dict(cases=1500, size=60), thorough=dict(cases=40000, size=120, budget_s=1500),
                rule="rapidcheck-generated sessions in which a publisher's changes fan out to 6+ subscriptions on a raw and a WebSocket reader (plus get/info/"
                     "batch responses and routed traffic), crossed with generated kernel write behaviour per connection: accept everything, accept only the first "
                     "n bytes of the gathered buffers (n from 1 to 600: inside the 4-byte prefix / WebSocket header, inside the payload, inside the pending buffer), "
                     "EAGAIN, EPIPE/ECONNRESET, and later drain events; write buffer 5120 (shipped) and 640 bytes (tiny). Oracle: the frames the daemon generated "
                     "are read off the buffers it passes to writev (pending bytes first, new frame after them); the byte stream the kernel accepted must be the "
                     "in-order concatenation of whole generated frames - a frame may be missing only as a whole - optionally followed by a proper prefix of a later "
                     "frame when the connection was closed afterwards or bytes are still queued; at most 64 writev calls per connection and loop iteration; no "
                     "I/O on a blocking descriptor. responses larger than the write buffer inside a batch, pings on blocked WebSocket readers; additional oracles: nothing queued once the socket is writable and the daemon idle, and no response lost on a connection that stays open (gap oracle); Non-trivial = some write accepted a proper prefix, a later drain happened and >=10 frames were generated; "
                     "distinct = scenario hash."),
    "C12": scen("c12", ["default"],
                quick=dict(cases=1500, size=60), thorough=dict(cases=40000, size=100, budget_s=1500),
                rule="rapidcheck-generated valid upgrades (header order and case, extra headers incl. an extension offer, random 16-byte keys, protocol lists "
                     "containing jet, Connection/Upgrade value variants) followed by frame sequences on 1-3 WebSocket connections next to a raw peer: text "
                     "messages of boundary sizes (24..512 bytes, all three length encodings as needed) carrying JSON-RPC, pings/pongs of 0..125 bytes, unmasked "
                     "frames, RSV bits, reserved opcodes, fragmented and oversized control frames, close frames over 23 status codes x 7 reasons (valid/invalid "
                     "UTF-8), 0- and 1-byte close payloads, data fragments, binary, continuation without start, invalid JSON/UTF-8 text, declared lengths above "
                     "the buffer, ordinary add/fetch/change/get traffic, random read chunking and split deliveries, random event order. Oracles: 101 with the "
                     "accept digest computed by the harness' own SHA-1/base64, protocol and upgrade headers; server frames unmasked/FIN/RSV0/minimal length/"
                     "opcode text|pong|close; pong payload == ping payload in order; every violation answered by a close frame of a status RFC 6455 assigns to it "
                     "and the connection ends; JSON-RPC over WebSocket and over raw agree with one shared reference model. sub-protocol offers with neighbours of every length, other case, odd spacing and a second header line; Non-trivial = handshake succeeded and "
                     "at least one frame other than a plain text frame was judged; distinct = scenario hash."),
    "C13": scen("c13", ["default"],
                quick=dict(cases=1500, size=60), thorough=dict(cases=40000, size=100, budget_s=1500),
                rule="rapidcheck-generated HTTP exchanges on the WebSocket port: a valid upgrade with exactly one defect - wrong path, method or version, malformed "
                     "request line after a matching target, one corrupted byte inside the request line, header line without colon, request or header line longer "
                     "than the read buffer, missing Upgrade/Connection/Sec-WebSocket-Key/-Version, key of wrong length, version != 13, protocol list without jet, "
                     "truncation at every byte followed by EOF/hang-up/reset - or none, several per scenario, delivered whole or split into two arrivals, while a "
                     "healthy raw peer with a fetch keeps changing a state; ended by close-all or SIGTERM. Oracles: status 4xx/5xx or nothing, never 101, the "
                     "connection ends; peer count, accounted heap, descriptors, timers and live blocks back at the idle baseline; clean exit; sanitizers silent; "
                     "the healthy peer's transcript equals the model. Non-trivial = at least one defect located after the request target matched the handler; "
                     "distinct = scenario hash."),
    "C17": dict(module=True, engine="module-pbt", driver="c17", variants=["default"], level="exploration", kinds=["asan"],
                repo_sources=["alloc.c"], shims=["c17_support.c"], exhaustive=True,
                multi=[("c17_table.c", ["-DT_TYPE=%d" % t, "-DT_ORDER=%d" % o], "tbl_%d_%d" % (t, o)) for t in range(3) for o in range(2, 14)],
                quick=dict(plan=[dict(bin="asan", mode="exhaustive", cases=i, size=6) for i in range(9)] + [dict(bin="asan", mode="random", cases=2500, size=150) for _ in range(7)]),
                thorough=dict(plan=[dict(bin="asan", mode="exhaustive", cases=i, size=7) for i in range(9)] + [dict(bin="asan", mode="random", cases=150000, size=300) for _ in range(7)], budget_s=1500),
                rule="the real hashtable.h macros instantiated for orders 2..13 x {string,uint32,uint64} (36 tables). (1) exhaustive: for orders 2-4 and all three key "
                     "types, every sequence of length <=6 (quick) / <=7 (thorough) over an alphabet of 16 operations (put new/overwrite with and without prev_value, "
                     "remove, routing-style sweep) on 5 keys sharing or neighbouring a home bucket at the end and at the start of the table, deduplicated by table image; "
                     "(2) rapidcheck: sequences of up to hundreds of put/get/remove/sweep/invalid-key operations on 3-120 clustered keys (homes at the table end so "
                     "probing wraps, >32 keys per neighbourhood for orders >=7 so displacement and refusal occur), keys passed through two distinct pointers of equal "
                     "content for string tables. Oracle after every operation: return codes, values and prev_value equal a std::map; every key of the universe is "
                     "looked up; when put reports full an independent breadth-first reachability computation over occupancy and hop bitmaps must find no free slot "
                     "that can be brought within hop range. Non-trivial = the sequence caused a displacement, a wrap-around probe or a refusal (random), or is a distinct "
                     "table image reached (exhaustive); exhaustive=true refers to sub-domain (1).",
                technique="bounded exhaustive enumeration (small orders) + rapidcheck model-based testing against std::map with a reachability reference",
                level_text="Every operation sequence up to the stated length on the smallest tables is enumerated; larger orders, displacement and refusal are sampled with model-based random sequences.",
                level_note="Trusts std::map and the reachability reference in modules/c17.cpp; instantiates the macros exactly as table.c and router.c do (value_entries=1)."),
    "C18": dict(module=True, engine="module-pbt", driver="c18", variants=["default"], level="exploration", kinds=["asan", "fast"],
                repo_sources=["utf8_checker.c"], shims=["c18_shim.c"], exhaustive=True,
                quick=dict(plan=[dict(bin="fast", mode="words32", cases=0, size=0), dict(bin="fast", mode="words64", cases=300000, size=0)] +
                                [dict(bin="asan", mode="strings", cases=40000, size=40) for _ in range(10)]),
                thorough=dict(plan=[dict(bin="fast", mode="words32", cases=0, size=0), dict(bin="fast", mode="words64", cases=20000000, size=0)] +
                                   [dict(bin="asan", mode="strings", cases=1500000, size=60) for _ in range(12)], budget_s=1500),
                rule="(1) exhaustive breadth-first product of the validator's state (through its public struct) with an independent RFC 3629 automaton over all 256 "
                     "byte values, with and without is_complete: verdicts and in-sequence status agree in every reachable pair (78 pairs); (2) all 2^32 "
                     "little-endian words through the 32-bit fast path from the initial state, verdict and resulting state compared; (3) 8^8 class-"
                     "representative words plus seeded random words biased to lead/continuation bytes through the 64-bit fast path; (4) rapidcheck strings "
                     "assembled from valid sequences of every length, overlongs, surrogates, >U+10FFFF, truncations, stray bytes and fast-path pairs, through "
                     "text/byte/word/word64/auto-aligned entry points, 0-3 split points and alignments 0-7 (ASan+UBSan). Non-trivial = input contains a byte "
                     ">= 0x80; distinct is measured as the count of such inputs in the exhaustive sub-domains (all distinct by construction) plus generated strings. "
                     "exhaustive=true refers to sub-domains (1) and (2); (3) and (4) are sampled.",
                technique="exhaustive product-automaton enumeration + exhaustive 2^32 word sweep + rapidcheck against an independent RFC 3629 automaton",
                level_text="The byte-wise validator is compared with an independent automaton on the complete reachable product state space (all byte values), which decides it for "
                           "strings of every length; the 32-bit fast path is compared on all 2^32 words; the 64-bit fast path and the chunked/aligned entry points are sampled.",
                level_note="Trusts the reference automaton in modules/c18.cpp; the product argument assumes the validator's behaviour depends only on its three state bytes."),
}

def plan_workers(spec, tier, nproc):
    t = spec[tier]
    if "plan" in t:
        return [dict(variant="default", bin=w["bin"], cases=w["cases"], size=w["size"], extra=["--mode", w["mode"]]) for w in t["plan"]]
    vs = spec["variants"]
    plan = []
    fz = spec.get("fuzz", {}).get(tier)
    nfz = fz["workers"] if fz else 0
    for i in range(nproc - nfz):
        v = vs[i % len(vs)]
        plan.append(dict(variant=v, cases=t["cases"], size=t["size"], extra=t.get("extra", [])))
    for i in range(nfz):   # coverage-guided workers (libFuzzer, in-process daemon); odd ones start from an empty corpus
        plan.append(dict(variant="default", runner="dfuzz", mode=spec["fuzz"]["mode"], rules=spec["fuzz"].get("rules", ""), cases=fz["runs"], size=fz["max_len"], corpus="seeds" if i % 2 == 0 else "empty"))
    return plan

import hashlib, shutil

def _hash_files(paths, extra=""):
    h = hashlib.sha256()
    for p in paths:
        h.update(p.encode()); h.update(open(p, "rb").read())
    h.update(extra.encode())
    return h.hexdigest()[:16]

def _run(cmd):
    r = subprocess.run(cmd, capture_output=True, text=True)
    if r.returncode != 0:
        raise SystemExit("module build failed: " + " ".join(cmd) + "\n" + r.stderr[-3000:])

def build_module(prop, variant):
    """Builds the module-level driver(s) of a property against /repo's working tree. Returns {kind: binary}."""
    spec = PROPS[prop]
    src = [os.path.join(REPO, "src", f) for f in spec["repo_sources"]]
    shim = [os.path.join(VERIF, "modules", f) for f in spec.get("shims", [])]
    hdrs = []
    for root, dirs, files in os.walk(os.path.join(REPO, "src")):
        if "/tests" in root: continue
        for fn in files:
            if fn.endswith(".h") or fn.endswith(".in"): hdrs.append(os.path.join(root, fn))
    drv_obj = os.path.join(VERIF, "build", "fw", "mod_" + spec["driver"] + ".o")
    hid = _hash_files(sorted(src + shim + hdrs) + [drv_obj], repr(spec.get("cflags", [])))
    modroot = "mod" if REPO == "/repo" else "mod-" + hashlib.sha256(REPO.encode()).hexdigest()[:8]   # trial trees never prune /repo's builds
    out = os.path.join(VERIF, "build", modroot, "%s-%s" % (prop, hid))
    bins = {k: os.path.join(out, k + ".bin") for k in spec["kinds"]}
    if all(os.path.exists(b) for b in bins.values()):
        return bins
    for d in os.listdir(os.path.join(VERIF, "build", modroot)) if os.path.isdir(os.path.join(VERIF, "build", modroot)) else []:
        if d.startswith(prop + "-"): shutil.rmtree(os.path.join(VERIF, "build", modroot, d), ignore_errors=True)
    tmp = out + ".tmp%d" % os.getpid()
    os.makedirs(tmp)
    import build_sut
    build_sut.gen_headers(tmp, "default")
    inc = ["-I", os.path.join(REPO, "src"), "-I", tmp, "-I", os.path.join(REPO, "src", "zlib")]
    for kind in spec["kinds"]:
        san = ["-fsanitize=address,undefined", "-fno-sanitize-recover=undefined"] if kind == "asan" else []
        objs = []
        prefixed = []
        for f in src + shim:
            rel = os.path.relpath(f, os.path.join(REPO, "src")) if f.startswith(REPO) else os.path.basename(f)
            o = os.path.join(tmp, kind + "_" + rel.replace("/", "_")[:-2] + ".o")
            _run(["clang", "-std=gnu99", "-D_GNU_SOURCE", "-DNO_GZIP", "-g", "-O2", "-Wno-everything"] + san + spec.get("cflags", []) + inc + ["-c", f, "-o", o])
            objs.append(o)
            if any(rel == x for x in spec.get("prefix_defined_in", [])):
                prefixed.append(o)
        if prefixed:
            # every global symbol defined by these objects (the vendored zlib) gets a prefix in all objects, so that the
            # harness can link the system zlib as an independent implementation
            names = set()
            for o in prefixed:
                r = subprocess.run(["nm", "--defined-only", "-g", o], capture_output=True, text=True)
                for line in r.stdout.splitlines():
                    parts = line.split()
                    if len(parts) == 3 and not parts[2].startswith("__"):
                        names.add(parts[2])
            symfile = os.path.join(tmp, kind + "_prefix.syms")
            with open(symfile, "w") as fh:
                for n in sorted(names):
                    fh.write("%s cjz_%s\n" % (n, n))
            for o in objs:
                _run(["objcopy", "--redefine-syms=" + symfile, o])
        for (f, defs, name) in spec.get("multi", []):
            o = os.path.join(tmp, kind + "_" + name + ".o")
            _run(["clang", "-std=gnu99", "-D_GNU_SOURCE", "-g", "-O2", "-Wno-everything"] + san + defs + inc + ["-I", os.path.join(VERIF, "modules"), "-c", os.path.join(VERIF, "modules", f), "-o", o])
            objs.append(o)
        drv = drv_obj if kind == "asan" else drv_obj.replace(".o", "_fast.o")
        _run(["clang++"] + san + [drv] + objs + spec.get("libs", ["-lrapidcheck"]) + ["-o", os.path.join(tmp, kind + ".bin")])
    os.rename(tmp, out)
    return bins
