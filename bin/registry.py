"""Per-property configuration of the checks (drivers, variants, budgets, evidence texts)."""
import os, subprocess

VERIF = os.path.dirname(os.path.dirname(os.path.abspath(__file__)))
REPO = os.environ.get("VERIF_REPO", "/repo")

COMMON_ASSUMPTIONS = [
    "the daemon runs inside a simulated kernel (descriptors, edge-triggered epoll, timerfd, clock, files, allocator) that models Linux semantics; behaviour depending on anything it does not model is outside",
    "objects are compiled from /repo's working tree with clang 14 -O1 + AddressSanitizer + UndefinedBehaviorSanitizer on x86-64; linux/random.c is replaced by a seeded generator",
    "the reference model (fw/model.hpp) and the harness codecs (fw/json.hpp, fw/codec.hpp) are trusted",
    "a case that hits the per-case wall-clock limit is counted as timed out, never as a violation",
]

DEFAULT_LEVEL_TEXT = ("Generated histories (tens of thousands per quick run, far more in thorough) are executed against the assembled daemon; "
                      "every quiescent point is judged against a reference model. Sampling of an unbounded space, not exhaustive.")
DEFAULT_LEVEL_NOTE = "Trusts the simulated kernel's semantics, the harness codecs and the reference model; see evidence assumptions."
NOT_APPLICABLE = {}

def scen(driver, variants, quick, thorough, rule, level="exploration", **kw):
    d = dict(driver=driver, variants=variants, quick=quick, thorough=thorough, rule=rule, level=level)
    d.update(kw)
    return d

PROPS = {
    "C01": scen("c01", ["default", "default", "default", "tiny"],
                quick=dict(cases=1500, size=60), thorough=dict(cases=40000, size=90, budget_s=3000),
                rule="rapidcheck-generated multi-peer histories of add/remove/change/fetch/unfetch/connect/disconnect over raw, local-socket and "
                     "WebSocket peers with random event-batch grouping; every step is judged against the reference model and the per-fetch replica "
                     "rebuilt from received notifications. Non-trivial = at least one fetch, at least two notifications and at least one quiescent "
                     "point where a replica with >=2 entries was compared; distinct = distinct scenario hash (per variant)."),
    "C03": scen("c03", ["default", "default", "tiny", "default"],
                quick=dict(cases=1500, size=60), thorough=dict(cases=40000, size=90, budget_s=3000),
                rule="rapidcheck-generated histories of set/call by several callers to several owners with owner replies (result, error, duplicate, "
                     "forged id, another owner's id), timer expiry through the virtual clock, connects/disconnects of callers, owners and bystanders, "
                     "in the shipped and in a 4-slot routing-table configuration; every step is judged against the reference model (routed message at "
                     "the owner only, payload equality, one final answer with the original id, unique routed ids). Non-trivial = at least one request "
                     "was routed and concluded by reply, timeout or owner disconnect; distinct = scenario hash."),
    "C04": scen("c04", ["default", "default", "default", "tiny"],
                quick=dict(cases=700, size=60), thorough=dict(cases=20000, size=90, budget_s=3000),
                rule="rapidcheck-generated sequences of add/remove/change/set/call/get and single-defect malformed requests by several peers over an "
                     "adversarial path pool (empty, 215-byte, non-ASCII, quoted/escaped, paths sharing a home bucket of the 2^13 index) and arbitrary JSON "
                     "values; an observer connection holds a fetch-all and issues get after every operation, so the daemon's own element set is compared "
                     "with the reference map after every step. Non-trivial = at least one mutation refused for ownership/kind/existence and at least one "
                     "re-add of a path after its removal or its owner's disconnect; distinct = scenario hash."),
    "C16": scen("c16", ["default"],
                quick=dict(cases=1200, size=60), thorough=dict(cases=40000, size=100, budget_s=3000),
                rule="rapidcheck-generated families of 4-8 related paths (prefixes/suffixes/infixes/case variants of each other, non-ASCII, empty) and rule "
                     "objects (any multiset and order of the six matchers, operands derived from the paths by 9 transformations, caseInsensitive absent/true/false/"
                     "repeated/first/last, unknown names, mistyped operands, 12 and 14 matchers); every rule is used for get and for fetch (states and methods), "
                     "followed by a change and by re-use of the same fetch id; selections and events are compared with an independent matcher. "
                     "Non-trivial = at least one well-formed rule selects a proper non-empty subset of the paths; distinct = scenario hash."),
    "C02": scen("c02", ["default"],
                quick=dict(cases=1500, size=60), thorough=dict(cases=40000, size=100, budget_s=3000),
                rule="rapidcheck-generated request objects of 26 shapes (every dispatcher method, unknown/empty/non-string methods, missing, mistyped and "
                     "duplicated members, unsolicited response objects, neither-request-nor-response) crossed with 27 id values of every JSON type "
                     "(strings incl. empty/200-byte/escaped, integers around 2^31/2^32/2^53, fractions, exponent forms, null/bool/object/array, absent), single "
                     "and in batches of 0-4 members (optionally with a non-object member), mixed with ordinary add/fetch/set/call/reply traffic of 1-4 peers "
                     "and timer expiry; every transcript is compared with the reference model step by step (exactly one response with an equal id and one of "
                     "result/error on the requester's connection only, batch order, nothing for id-less requests and response objects). "
                     "Non-trivial = the scenario contains a batch of >=2 members, a non-numeric id, or an incoming response object; distinct = scenario hash."),
    "C07": scen("c07", ["default", "default", "small", "default"],
                quick=dict(cases=1200, size=60), thorough=dict(cases=40000, size=100, budget_s=3000),
                rule="rapidcheck-generated connection histories over raw, local-socket and WebSocket peers (every request kind, malformed and hostile "
                     "requests, batches, raw byte blobs, repeated authenticate with a credential file, routed requests left in flight, abrupt ends) with "
                     "injected failures of fcntl/setsockopt/getsockname/epoll_ctl/timerfd_create/timerfd_settime, ended by closing all connections or by "
                     "SIGTERM with connections open; oracles: accounted heap, peer count, open descriptors, armed timers and live blocks equal the idle "
                     "baseline after close-all, nothing open/allocated after exit, exit status 0, descriptor-hygiene monitor silent, sanitizers silent. "
                     "Non-trivial = >=3 connections, >=1 abnormal end or junk input, and >=1 routed request (timer) existed; distinct = scenario hash."),
    "C05": scen("c05", ["default"],
                quick=dict(cases=1500, size=60), thorough=dict(cases=40000, size=100, budget_s=3000),
                rule="rapidcheck-generated histories in which peers on raw, local-socket and WebSocket transports own elements, hold fetches and are caller or "
                     "owner of routed requests, and then end: EOF, hang-up or reset, alone or in the same event batch as other traffic, after a truncated "
                     "length prefix / message / WebSocket frame, or dropped by the daemon for invalid JSON, an over-long message or a WebSocket protocol "
                     "violation; the other peers' transcripts are compared with the reference model (remove events, shutdown errors, nothing else), the "
                     "descriptor-hygiene monitor and the sanitizers watch the released connection. Non-trivial = the ending peer owned an element with "
                     "effects, or had a routed request in either role; distinct = scenario hash."),
    "C11": scen("c11", ["default"], level="fault_enumeration",
                quick=dict(cases=900, size=60), thorough=dict(cases=30000, size=100, budget_s=3000),
                rule="rapidcheck-generated multi-peer histories (add/remove/change/fetch/set/call/reply/timeouts) in which a generated subset of peers is made "
                     "faulty at generated moments: send path full forever (EAGAIN), kernel accepts only 3 or 40 more bytes, writes fail with EPIPE/ECONNRESET, "
                     "the peer sends garbage, or accept() fails with ECONNABORTED/EMFILE/ENFILE/EINTR/ENOMEM/EPROTO for the next connection attempts; one faulty "
                     "subscriber is registered before all healthy ones. A healthy observer holds a fetch-all and issues get after every operation. Healthy "
                     "peers' transcripts must equal the fault-aware model (a faulty peer may be dropped, which is then an ordinary disconnect; a requester "
                     "may get an error instead of a result only where a delivery to a faulty peer was involved, and the request must still have taken effect). "
                     "Non-trivial = at least one step delivered to a faulty peer while healthy peers were entitled to messages, or an injected accept failure "
                     "followed by further connects; distinct = scenario hash."),
    "C14": scen("c14", ["default"],
                quick=dict(cases=1200, size=60), thorough=dict(cases=40000, size=100, budget_s=3000),
                rule="rapidcheck-generated histories of set/call with request timeouts and element timeouts drawn from {absent, 0.001, 0.00099999, 0.0010001, "
                     "0.0005, 0, -1, 0.25, 0.5, 2, 7.5, 10, string, bool, null} in every precedence combination, owner replies, caller/owner disconnects and "
                     "virtual-clock advances straddling the deadlines; steps that join a clock advance with a reply or a disconnect put the timer expiry and "
                     "that event into one epoll batch in a generated order (both processing orders are accepted, exactly one answer is required). Oracles: "
                     "refusal exactly for non-numeric or <1ms timeouts, the duration passed to timerfd_settime equals request timeout, else element timeout, "
                     "else 5s (rel. tol. 1e-9), no timeout answer before the virtual deadline and one in the step that reaches it, late replies have no "
                     "effect, sanitizers silent. Non-trivial = at least one armed duration was compared and the scenario has a timeout or a race step; "
                     "distinct = scenario hash."),
}

def plan_workers(spec, tier, nproc):
    t = spec[tier]
    vs = spec["variants"]
    plan = []
    for i in range(nproc):
        v = vs[i % len(vs)]
        plan.append(dict(variant=v, cases=t["cases"], size=t["size"], extra=t.get("extra", [])))
    return plan

def build_module(prop, variant):
    raise SystemExit("no module driver registered for " + prop)
