#!/usr/bin/env python3
"""Build the system under test (all cjet daemon objects) from /repo's *working tree*.

No cmake: the source lists are parsed from src/CMakeLists.txt, the generated headers are
produced from the .in templates, every object is compiled with clang + ASan + UBSan and
-DCJET_VERIF, and kernel-facing symbols are redirected to the simulated kernel with objcopy.
Objects are cached under /verif/build/sut/<hash>/ where <hash> covers every byte of
/repo/src that can influence them plus flags and variant, so a changed tree is always
rebuilt and an unchanged tree is not.
"""
import hashlib, os, re, subprocess, sys, shutil
from concurrent.futures import ThreadPoolExecutor

REPO = os.environ.get("VERIF_REPO", "/repo")
VERIF = os.path.dirname(os.path.dirname(os.path.abspath(__file__)))
BUILD = os.path.join(VERIF, "build")

VARIANTS = {
    #            elem  route msg  wbuf  heapKB addlocal
    "default": dict(ELEM=13, ROUTE=6, MSG=512, WBUF=5120, HEAP=20480, ADDLOCAL="false"),
    "tiny":    dict(ELEM=2,  ROUTE=2, MSG=512, WBUF=640,  HEAP=20480, ADDLOCAL="false"),
    "small":   dict(ELEM=4,  ROUTE=3, MSG=512, WBUF=1024, HEAP=64,    ADDLOCAL="false"),
    "local":   dict(ELEM=13, ROUTE=6, MSG=512, WBUF=5120, HEAP=20480, ADDLOCAL="true"),
}

# libc / kernel entry points that cjet's objects must not reach directly.
REDIRECT = """socket setsockopt fcntl bind listen accept getsockname close read writev write unlink
epoll_create epoll_create1 epoll_ctl epoll_wait timerfd_create timerfd_settime signal syslog open lseek mmap munmap
realpath ftruncate daemon malloc calloc realloc free fsync fdatasync rename shutdown send recv fstat""".split()

BASE_FLAGS = ["-g", "-O1", "-fno-omit-frame-pointer", "-fsanitize=address,undefined",
              "-fno-sanitize-recover=undefined", "-DCJET_VERIF", "-fno-common", "-U_FORTIFY_SOURCE",
              "-Wno-everything"]

def parse_lists(cmake_txt):
    groups = {}
    for m in re.finditer(r"SET\s*\(\s*(CJET_[A-Z_]*FILES)\s+([^)]*)\)", cmake_txt):
        groups[m.group(1)] = m.group(2).split()
    return groups

GROUP_FLAGS = {
    "CJET_FILES": ["-std=c99"],
    "CJET_LINUX_FILES": ["-D_GNU_SOURCE", "-std=c99"],
    "CJET_POSIX_FILES": ["-D_XOPEN_SOURCE=500", "-std=c99"],
    "CJET_ZLIB_FILES": ["-DNO_GZIP", "-std=c99"],
}

def subst(template, values):
    return re.sub(r"\$\{([A-Za-z_]+)\}", lambda m: str(values.get(m.group(1), "")), template)

def gen_headers(gendir, variant):
    v = VARIANTS[variant]
    src = os.path.join(REPO, "src")
    values = dict(CONFIG_JET_PORT=11122, CONFIG_JETWS_PORT=11123, CONFIG_LISTEN_BACKLOG=40,
                  CONFIG_MAX_MESSAGE_SIZE=v["MSG"], CONFIG_MAX_WRITE_BUFFER_SIZE=v["WBUF"],
                  CONFIG_ELEMENT_TABLE_ORDER=v["ELEM"], CONFIG_ROUTING_TABLE_ORDER=v["ROUTE"],
                  CONFIG_INITIAL_FETCH_TABLE_SIZE=4, CONFIG_ROUTED_MESSAGES_TIMEOUT="5.0",
                  CONFIG_MAX_NUMBERS_OF_MATCHERS_IN_FETCH=12,
                  CONFIG_ALLOW_ADD_ONLY_FROM_LOCALHOST=v["ADDLOCAL"],
                  CONFIG_MAX_HEAPSIZE_IN_KBYTE=v["HEAP"], CONFIG_MAX_EPOLL_EVENTS=10,
                  CONFIG_UDS_FILE="/var/run/jet.socket", WEBSOCKET_PATH="/api/jet/",
                  CJET_VERSION=open(os.path.join(src, "cjet_version")).read().strip(),
                  CJET_LAST="-verif", PROJECT_NAME="cjet")
    os.makedirs(os.path.join(gendir, "generated"), exist_ok=True)
    for tmpl, out in (("linux/config/os_config.h.in", "os_config.h"), ("cjet_config.h.in", "cjet_config.h"),
                      ("version.h.in", "version.h")):
        with open(os.path.join(src, tmpl)) as f:
            txt = subst(f.read(), values)
        with open(os.path.join(gendir, "generated", out), "w") as f:
            f.write(txt)

def tree_hash(extra):
    h = hashlib.sha256()
    src = os.path.join(REPO, "src")
    for root, dirs, files in os.walk(src):
        dirs.sort()
        if "/tests" in root or "/autobahnfiles" in root or "/win32" in root or "/utf8_speedup" in root:
            continue
        for fn in sorted(files):
            if not (fn.endswith((".c", ".h", ".in", ".txt")) or fn == "cjet_version"):
                continue
            p = os.path.join(root, fn)
            h.update(p.encode()); h.update(b"\0")
            with open(p, "rb") as f:
                h.update(f.read())
    h.update(repr(extra).encode())
    with open(__file__, "rb") as f:
        h.update(f.read())
    return h.hexdigest()[:20]

def build(variant="default", fuzzer=False, extra_defs=(), jobs=16, quiet=True):
    """Returns (dir, [objects]). Raises on compile failure."""
    extra = (variant, fuzzer, tuple(extra_defs), tuple(BASE_FLAGS))
    hid = tree_hash(extra)
    # builds of a tree other than /repo (VERIF_REPO set for a trial) live in their own directory, so that they never prune /repo's build
    sut_name = "sut" if REPO == "/repo" else "sut-" + hashlib.sha256(REPO.encode()).hexdigest()[:8]
    out = os.path.join(BUILD, sut_name, f"{variant}{'-fz' if fuzzer else ''}-{hid}")
    stamp = os.path.join(out, "OK")
    if os.path.exists(stamp):
        return out, sorted(os.path.join(out, f) for f in os.listdir(out) if f.endswith(".o"))
    # prune old builds of the same variant (disk hygiene)
    sut_root = os.path.join(BUILD, sut_name)
    os.makedirs(sut_root, exist_ok=True)
    for d in os.listdir(sut_root):
        if d.startswith(f"{variant}{'-fz' if fuzzer else ''}-") and d != os.path.basename(out):
            shutil.rmtree(os.path.join(sut_root, d), ignore_errors=True)
    tmp = out + f".tmp{os.getpid()}"
    shutil.rmtree(tmp, ignore_errors=True)
    os.makedirs(tmp)
    gen_headers(tmp, variant)
    with open(os.path.join(REPO, "src", "CMakeLists.txt")) as f:
        groups = parse_lists(f.read())
    syms = os.path.join(tmp, "redirect.syms")
    with open(syms, "w") as f:
        for s in REDIRECT:
            f.write(f"{s} simk_{s}\n")
        f.write("__sysv_signal simk_sysv_signal\n")
        f.write("main cjet_main\n")
    jobs_list = []
    for g, files in groups.items():
        for rel in files:
            if rel == "linux/random.c":
                continue  # replaced by the seeded generator of the simulated kernel
            obj = os.path.join(tmp, rel.replace("/", "_")[:-2] + ".o")
            cmd = ["clang"] + GROUP_FLAGS.get(g, ["-std=c99"]) + BASE_FLAGS + list(extra_defs)
            if fuzzer:
                cmd += ["-fsanitize=fuzzer-no-link"]
            cmd += ["-I", os.path.join(REPO, "src"), "-I", tmp, "-I", os.path.join(REPO, "src", "zlib"),
                    "-c", os.path.join(REPO, "src", rel), "-o", obj]
            jobs_list.append((cmd, obj))
    def run(job):
        cmd, obj = job
        r = subprocess.run(cmd, capture_output=True, text=True)
        if r.returncode != 0:
            return "FAILED: " + " ".join(cmd) + "\n" + r.stderr
        g = ["--globalize-symbol=go_ahead", "--globalize-symbol=uuid", "--globalize-symbol=allocated_memory",
             "--globalize-symbol=number_of_peers"]
        r = subprocess.run(["objcopy", f"--redefine-syms={syms}"] + g + [obj], capture_output=True, text=True)
        if r.returncode != 0:
            return "FAILED objcopy: " + r.stderr
        return None
    with ThreadPoolExecutor(max_workers=jobs) as ex:
        errs = [e for e in ex.map(run, jobs_list) if e]
    if errs:
        shutil.rmtree(tmp, ignore_errors=True)
        raise RuntimeError("SUT build failed:\n" + "\n".join(sorted(set(errs))[:5]))
    open(os.path.join(tmp, "OK"), "w").write(hid)
    shutil.rmtree(out, ignore_errors=True)
    os.rename(tmp, out)
    return out, sorted(os.path.join(out, f) for f in os.listdir(out) if f.endswith(".o"))

if __name__ == "__main__":
    variant = sys.argv[1] if len(sys.argv) > 1 else "default"
    d, objs = build(variant, fuzzer=("--fuzzer" in sys.argv))
    print(d)
