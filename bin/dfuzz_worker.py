#!/usr/bin/env python3
"""One libFuzzer worker of the daemon target (fuzz/dfuzz.cpp), wrapped so that it looks like any other worker of bin/check:
   dfuzz_worker.py --binary <dfuzz> --driver <fork driver of the property> --mode c06|c07 --variant V --cases N --seed S --out result.json
Builds a small seed corpus (valid Jet sessions in the target's input encoding) in a scratch directory, runs the campaign for
N executions, and turns every crash artifact into an ordinary scenario replay which must reproduce (in a fresh process of
the target, or in the fork driver) before it is reported. timeout-/oom-/slow-unit artifacts are load noise: inconclusive."""
import argparse, glob, json, os, re, shutil, struct, subprocess, sys, hashlib

VERIF = os.environ.get("VERIF_ROOT") or os.path.dirname(os.path.dirname(os.path.abspath(__file__)))
ENV = dict(os.environ,
           ASAN_OPTIONS="detect_leaks=0:allocator_may_return_null=1:detect_stack_use_after_return=0:symbolize=1:external_symbolizer_path=/usr/bin/llvm-symbolizer-14",
           UBSAN_OPTIONS="print_stacktrace=1:halt_on_error=1:external_symbolizer_path=/usr/bin/llvm-symbolizer-14")

# ---- input encoding of fuzz/dfuzz.cpp ------------------------------------------------------------------------------
def hdr(t1=0, t2=1, end=0, chunk=0, b1=0): return bytes([(t1 & 3) | ((t2 & 3) << 2) | ((end & 1) << 4) | ((chunk & 7) << 5), b1])
def ctl(kind, conn=1, join=0, strid=0): return bytes([kind | (((conn - 1) & 3) << 4) | (join << 6) | (strid << 7)])
def msg(conn, text, join=0):
    b = text.encode() if isinstance(text, str) else text
    return ctl(0, conn, join) + struct.pack("<H", len(b)) + b
def blob(conn, b): return ctl(3, conn) + bytes([len(b)]) + b
def wsframe(conn, opcode, flags, payload, lenenc=0, d=0): return ctl(4, conn) + bytes([opcode, flags, lenenc]) + struct.pack("<HH", d, len(payload)) + payload
def end(conn, how): return ctl(5, conn) + bytes([how])
def connect(t, origin=0): return ctl(6) + bytes([t, origin])
def sym(conn, sub, x=0, y=0, join=0): return ctl(12, conn, join) + bytes([sub, x, y])
def tmpl(conn, method, idn, params):
    p = params.encode()
    return ctl(13, conn) + bytes([(idn << 4) | method]) + struct.pack("<H", len(p)) + p
def advance(a): return ctl(10) + bytes([a])
INFO = ctl(11)
M = {m: i for i, m in enumerate(["add", "remove", "change", "set", "call", "fetch", "unfetch", "get", "config", "info", "authenticate", "passwd", "nope"])}

def seeds():
    s = []
    for t1, t2 in ((0, 1), (1, 0), (2, 1), (1, 1)):
        s.append(hdr(t1, t2) + msg(1, '{"id":1,"method":"add","params":{"path":"a/b","value":{"k":[1,2]}}}') + msg(2, '{"id":2,"method":"fetch","params":{"id":"f","path":{"startsWith":"a","caseInsensitive":true}}}')
                 + msg(1, '{"id":3,"method":"change","params":{"path":"a/b","value":2}}') + INFO + msg(2, '{"id":4,"method":"set","params":{"path":"a/b","value":3,"timeout":0.5}}')
                 + sym(1, 7, 0, 0) + msg(1, '{"id":5,"method":"remove","params":{"path":"a/b"}}') + msg(2, '{"id":6,"method":"unfetch","params":{"id":"f"}}'))
        s.append(hdr(t1, t2, end=1) + sym(1, 0, 1, 3) + sym(1, 0 | 16, 2, 0) + sym(2, 3, 0, 0) + sym(2, 6, 2, 1) + sym(1, 7, 0, 1) + sym(2, 5, 1, 4) + advance(5) + sym(1, 7, 0, 0) + end(2, 2) + INFO)
        s.append(hdr(t1, t2, chunk=5) + msg(1, '[{"id":1,"method":"info"},{"id":"x","method":"get","params":{"path":{"contains":"a","containsAllOf":["a","b"]}}},{"method":"config","params":{"name":"peer"}}]')
                 + msg(2, '{"id":7,"method":"call","params":{"path":"nope","args":[1,2],"timeout":1e308}}') + msg(2, '{"id":8,"result":null}') + INFO)
    s.append(hdr(1, 1) + wsframe(1, 9, 1 | 2, b"ping") + wsframe(1, 1, 2, b'{"id":1,"met') + wsframe(1, 0, 1 | 2, b'hod":"info"}') + wsframe(2, 8, 1 | 2, b"\x03\xe8bye") + wsframe(1, 2, 1 | 2, b"\x00\x01") + INFO)
    s.append(hdr(1, 0) + wsframe(1, 1, 1, b"unmasked") + connect(1) + wsframe(3, 10, 3, b"") + wsframe(3, 1, 3 | 4, b"rsv") + wsframe(3, 1, 3, b"x" * 200, lenenc=2, d=60000) + INFO)
    s.append(hdr(0, 2) + blob(1, b"\x00\x00\x00\x00") + blob(2, b"\x00\x00\x02\x01{") + connect(0, 2) + blob(3, b"\xff\xff\xff\xff") + ctl(8, 1) + bytes([3]) + ctl(7, 2) + bytes([9, 1]) + INFO)
    http = b"GET /api/jet/ HTTP/1.1\r\nHost: h\r\nUpgrade: websocket\r\nConnection: keep-alive, Upgrade\r\nSec-WebSocket-Key: dGhlIHNhbXBsZSBub25jZQ==\r\nSec-WebSocket-Version: 13\r\nSec-WebSocket-Extensions: permessage-deflate; client_max_window_bits\r\n\r\n"
    s.append(hdr(1, 1) + ctl(15, 1) + struct.pack("<H", len(http)) + http + ctl(15, 2) + struct.pack("<H", 24) + b"POST / HTTP/1.0\r\n\r\nhello" + INFO)
    for m, p in (("add", '{"path":"p","value":1,"fetchOnly":true,"access":{"fetchGroups":["a"],"setGroups":[]}}'), ("fetch", '{"id":1,"path":{"equals":"p","equalsNot":"q","endsWith":"p"}}'),
                 ("authenticate", '{"user":"john","password":"doe"}'), ("passwd", '{"user":"john","password":"x"}'), ("config", '{"name":"' + "N" * 120 + '"}'), ("get", '{"path":{"startsWith":"","caseInsensitive":false}}')):
        s.append(hdr(0, 1) + tmpl(1, M[m], 3, p) + tmpl(2, M[m], 4, p) + INFO)
    return s

def mrec(kind, conn=0, a=0, b=0, c=0, d=0, join=0, strid=0): return bytes([kind | ((conn & 3) << 4) | (join << 6) | (strid << 7), a & 255, b & 255, c & 255, d & 255])
def model_seeds():
    K = dict(add=0, remove=1, change=2, fetch=3, unfetch=4, get=5, set=6, call=7, reply=8, info=9, connect=10, end=11, advance=12, rawreq=13, mutreq=14, batch=15)
    s = []
    for b0 in (0b000100, 0b010001, 0b100110):
        h = bytes([b0, 1])
        s.append(h + mrec(K["fetch"], 1, 0, 0) + mrec(K["add"], 0, 0, 1) + mrec(K["add"], 0, 1, 128) + mrec(K["change"], 0, 0, 3, 4) + mrec(K["set"], 2, 0, 5, 4) + mrec(K["reply"], 0, 0, 0, 2)
                 + mrec(K["call"], 2, 1, 2, 4, 0, strid=1) + mrec(K["reply"], 0, 0, 1, 7) + mrec(K["remove"], 0, 0, 0, 4) + mrec(K["unfetch"], 1, 0) + mrec(K["end"], 0, 1))
        s.append(h + mrec(K["add"], 0, 2, 4) + mrec(K["fetch"], 1, 1, 2, join=1) + mrec(K["fetch"], 2, 2, 0, join=1) + mrec(K["call"], 1, 2, 0, 4, 33) + mrec(K["advance"], 0, 6) + mrec(K["connect"], 0, 1, 2)
                 + mrec(K["batch"], 3, 3) + mrec(K["info"], 3) + mrec(K["get"], 3, 0, 2) + mrec(K["rawreq"], 3, 22, 5, 1) + mrec(K["end"], 1, 2, join=1) + mrec(K["mutreq"], 2, 0, 1, 3, 2))
    return s

def main():
    ap = argparse.ArgumentParser()
    ap.add_argument("--prop", default=""); ap.add_argument("--rules", default="")
    ap.add_argument("--binary", required=True); ap.add_argument("--driver", default=""); ap.add_argument("--mode", default="c06")
    ap.add_argument("--variant", default="default"); ap.add_argument("--cases", type=int, default=20000); ap.add_argument("--size", type=int, default=2048)
    ap.add_argument("--seed", type=int, default=1); ap.add_argument("--out", required=True); ap.add_argument("--corpus", default="seeds")
    a = ap.parse_args()
    prop = a.prop or ("C07" if a.mode == "c07" else "C06")
    work = a.out + ".work"
    shutil.rmtree(work, ignore_errors=True)
    os.makedirs(os.path.join(work, "corpus")); os.makedirs(os.path.join(work, "art")); os.makedirs(os.path.join(work, "viol"))
    if a.corpus == "seeds":
        for i, b in enumerate(model_seeds() if a.mode == "model" else seeds()):
            open(os.path.join(work, "corpus", "seed%02d" % i), "wb").write(b)
    stat = os.path.join(work, "stat.json")
    env = dict(ENV, DFUZZ_MODE=a.mode, DFUZZ_OUT=os.path.join(work, "viol"), DFUZZ_STAT=stat, DFUZZ_PROP=prop)
    if a.rules: env["DFUZZ_RULES"] = a.rules
    import time
    left = float(os.environ.get("VERIF_DEADLINE") or 0) - time.time()
    extra = ["-max_total_time=%d" % max(10, int(left))] if os.environ.get("VERIF_DEADLINE") else []
    cmd = ["setarch", "x86_64", "-R", a.binary] + extra + ["-runs=%d" % a.cases, "-seed=%d" % (a.seed or 1), "-max_len=%d" % a.size, "-len_control=20", "-timeout=60", "-rss_limit_mb=6000",
           "-dict=" + os.path.join(VERIF, "fuzz", "jet.dict"), "-artifact_prefix=" + os.path.join(work, "art") + "/", "-print_final_stats=1", os.path.join(work, "corpus")]
    r = subprocess.run(cmd, env=env, capture_output=True, text=True, errors="replace")
    log = r.stderr
    res = {"evaluations": 0, "nontrivial_count": 0, "labels": {}, "stat": {}, "samples": [], "violations": [], "inconclusive": 0, "timeouts": 0, "known_hits": {}}
    try:
        st = json.load(open(stat))
        for k in ("evaluations", "nontrivial_count", "labels", "stat", "samples"):
            res[k] = st.get(k, res[k])
    except Exception:
        pass
    m = re.search(r"stat::number_of_executed_units:\s+(\d+)", log)
    if m: res["evaluations"] = max(res["evaluations"], int(m.group(1)))
    cov = re.findall(r"cov: (\d+) ft: (\d+) corp: (\d+)", log)
    res["coverage_extra"] = {"libfuzzer_" + a.mode: {"edges_covered": int(cov[-1][0]) if cov else 0, "features": int(cov[-1][1]) if cov else 0, "corpus_units": int(cov[-1][2]) if cov else 0,
                                                         "seed_corpus": a.corpus, "runs_requested": a.cases}}
    res["labels"]["engine:libfuzzer"] = res["evaluations"]
    arts = sorted(glob.glob(os.path.join(work, "art", "*")))
    for art in arts:
        base = os.path.basename(art)
        if not (base.startswith("crash-") or base.startswith("leak-")):
            res["inconclusive"] += 1; res["timeouts"] += 1
            continue
        # the scenario of this input
        d = subprocess.run([a.binary, art], env=dict(env, DFUZZ_DUMP="1"), capture_output=True, text=True, errors="replace")
        mm = re.search(r"^DFUZZ-SCENARIO (.*)$", d.stdout, re.M)
        if not mm:
            res["violations"].append({"signature": "dfuzz: cannot decode artifact", "detail": base, "replay": art}); continue
        rep = json.loads(mm.group(1))
        sig = "crash"; detail = ""
        mv = re.search(r"DFUZZ-VIOLATION ([^:]+): (.*)", log)
        ms = re.search(r"ERROR: AddressSanitizer: (\S+)", log) or re.search(r"runtime error: (.*)", log)
        if mv: sig, detail = mv.group(1), mv.group(2)[:300]
        elif ms: sig, detail = "sanitizer:" + ms.group(1)[:80], (re.search(r"#\d+ 0x[0-9a-f]+ in (\S+) \S*/src/", log) or [None, "?"])[1]
        rep.update({"property": prop, "signature": sig, "detail": detail, "found_by": "libFuzzer " + a.mode + " seed %d" % a.seed})
        fdir = os.path.join(VERIF, "replays", prop, "found"); os.makedirs(fdir, exist_ok=True)
        path = os.path.join(fdir, "dfuzz-" + hashlib.sha1(open(art, "rb").read()).hexdigest()[:16] + ".json")
        json.dump(rep, open(path, "w"))
        # must reproduce from the saved input: fresh process of the target, or the fork driver on the decoded scenario
        again = sum(1 for _ in range(2) if subprocess.run([a.binary, art], env=env, capture_output=True).returncode != 0)
        forked = 0
        if a.driver:
            fr = subprocess.run([a.driver, "--replay", path, "--variant", a.variant], capture_output=True, text=True, errors="replace")
            forked = 1 if fr.returncode != 0 else 0
            if forked and fr.stdout.strip(): sig = fr.stdout.strip().splitlines()[0][:300]
        if again >= 2 or forked:
            res["violations"].append({"signature": sig, "detail": detail, "replay": path, "reproduced": again + forked})
        else:
            res["inconclusive"] += 1
    if r.returncode != 0 and not arts:
        res["violations"].append({"signature": "dfuzz: fuzzer ended abnormally without artifact", "detail": log[-400:], "replay": ""})
    json.dump(res, open(a.out, "w"))
    shutil.rmtree(work, ignore_errors=True)
    return 0

if __name__ == "__main__":
    sys.exit(main())
