#!/bin/bash
# Confirm a seeded change delivered in a scratch worktree: suite passes with it, demo fails with it and passes without it.
# usage: confirm_mutant.sh <worktree>
wt=$1
cd $wt || exit 2
git apply --check -R patch.diff 2>/dev/null || { echo "patch not applied in worktree (or does not match)"; }
echo "== ctest with change"; cmake --build $wt/_build -j8 >/dev/null 2>&1; ctest --test-dir $wt/_build -j8 --timeout 900 2>&1 | grep -E "tests passed|tests failed|Failed" | head -3
echo "== demo with change"; (bash demo/run.sh >/tmp/demo_with.log 2>&1; echo "exit=$?")
git apply -R patch.diff
echo "== demo without change"; (bash demo/run.sh >/tmp/demo_without.log 2>&1; echo "exit=$?")
git apply patch.diff
