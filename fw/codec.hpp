// Client-side codecs written for the harness (independent of cjet's own implementations):
// 4-byte length framing, RFC 6455 frames, HTTP response head, SHA-1, base64.
#pragma once
#include <cstdint>
#include <cstring>
#include <string>
#include <vector>

namespace codec {

inline std::string be32(uint32_t n)
{
	std::string s(4, '\0');
	s[0] = (char)(n >> 24); s[1] = (char)(n >> 16); s[2] = (char)(n >> 8); s[3] = (char)n;
	return s;
}
inline std::string raw_frame(const std::string &payload) { return be32((uint32_t)payload.size()) + payload; }

// ---- SHA-1 (FIPS 180-1), straightforward implementation
inline std::string sha1(const std::string &msg)
{
	uint32_t h0 = 0x67452301, h1 = 0xEFCDAB89, h2 = 0x98BADCFE, h3 = 0x10325476, h4 = 0xC3D2E1F0;
	std::string m = msg;
	uint64_t ml = (uint64_t)msg.size() * 8;
	m += (char)0x80;
	while (m.size() % 64 != 56) m += (char)0;
	for (int i = 7; i >= 0; i--) m += (char)(ml >> (i * 8));
	auto rol = [](uint32_t x, int n) { return (x << n) | (x >> (32 - n)); };
	for (size_t off = 0; off < m.size(); off += 64) {
		uint32_t w[80];
		for (int i = 0; i < 16; i++)
			w[i] = ((uint32_t)(uint8_t)m[off + 4 * i] << 24) | ((uint32_t)(uint8_t)m[off + 4 * i + 1] << 16) |
			       ((uint32_t)(uint8_t)m[off + 4 * i + 2] << 8) | (uint32_t)(uint8_t)m[off + 4 * i + 3];
		for (int i = 16; i < 80; i++) w[i] = rol(w[i - 3] ^ w[i - 8] ^ w[i - 14] ^ w[i - 16], 1);
		uint32_t a = h0, b = h1, c = h2, d = h3, e = h4;
		for (int i = 0; i < 80; i++) {
			uint32_t f, k;
			if (i < 20) { f = (b & c) | (~b & d); k = 0x5A827999; }
			else if (i < 40) { f = b ^ c ^ d; k = 0x6ED9EBA1; }
			else if (i < 60) { f = (b & c) | (b & d) | (c & d); k = 0x8F1BBCDC; }
			else { f = b ^ c ^ d; k = 0xCA62C1D6; }
			uint32_t t = rol(a, 5) + f + e + k + w[i];
			e = d; d = c; c = rol(b, 30); b = a; a = t;
		}
		h0 += a; h1 += b; h2 += c; h3 += d; h4 += e;
	}
	std::string out;
	for (uint32_t h : {h0, h1, h2, h3, h4}) { out += (char)(h >> 24); out += (char)(h >> 16); out += (char)(h >> 8); out += (char)h; }
	return out;
}

inline std::string base64(const std::string &in)
{
	static const char tbl[] = "ABCDEFGHIJKLMNOPQRSTUVWXYZabcdefghijklmnopqrstuvwxyz0123456789+/";
	std::string out;
	size_t i = 0;
	for (; i + 2 < in.size(); i += 3) {
		uint32_t v = ((uint8_t)in[i] << 16) | ((uint8_t)in[i + 1] << 8) | (uint8_t)in[i + 2];
		out += tbl[v >> 18]; out += tbl[(v >> 12) & 63]; out += tbl[(v >> 6) & 63]; out += tbl[v & 63];
	}
	if (i + 1 == in.size()) { uint32_t v = (uint8_t)in[i] << 16; out += tbl[v >> 18]; out += tbl[(v >> 12) & 63]; out += "=="; }
	else if (i + 2 == in.size()) { uint32_t v = ((uint8_t)in[i] << 16) | ((uint8_t)in[i + 1] << 8); out += tbl[v >> 18]; out += tbl[(v >> 12) & 63]; out += tbl[(v >> 6) & 63]; out += '='; }
	return out;
}

inline std::string ws_accept(const std::string &key) { return base64(sha1(key + "258EAFA5-E914-47DA-95CA-C5AB0DC85B11")); }

// ---- WebSocket frames
struct WsFrame {
	bool fin = true; int rsv = 0; int opcode = 1; bool masked = true;
	uint8_t mask[4] = {0x12, 0x34, 0x56, 0x78};
	int lenenc = 0; // 0 minimal, 1 force 16-bit, 2 force 64-bit
	std::string payload;
	// decode only
	bool minimal = true;
};

inline std::string ws_encode(const WsFrame &f, uint64_t declared_len_override = UINT64_MAX)
{
	std::string s;
	s += (char)((f.fin ? 0x80 : 0) | ((f.rsv & 7) << 4) | (f.opcode & 0xF));
	uint64_t len = declared_len_override != UINT64_MAX ? declared_len_override : f.payload.size();
	uint8_t mb = f.masked ? 0x80 : 0;
	int enc = f.lenenc;
	if (enc == 0) enc = len < 126 ? 0 : (len < 65536 ? 1 : 2);
	else if (enc == 1 && len >= 65536) enc = 2;
	if (enc == 0) s += (char)(mb | (uint8_t)len);
	else if (enc == 1) { s += (char)(mb | 126); s += (char)(len >> 8); s += (char)len; }
	else { s += (char)(mb | 127); for (int i = 7; i >= 0; i--) s += (char)(len >> (8 * i)); }
	if (f.masked) {
		s.append((const char *)f.mask, 4);
		for (size_t i = 0; i < f.payload.size(); i++) s += (char)(f.payload[i] ^ f.mask[i % 4]);
	} else s += f.payload;
	return s;
}

// Parses as many complete frames as available from buf[pos..]. Returns false on malformed header.
inline bool ws_decode_all(const std::string &buf, size_t &pos, std::vector<WsFrame> &out)
{
	for (;;) {
		size_t p = pos;
		if (buf.size() - p < 2) return true;
		uint8_t b0 = buf[p], b1 = buf[p + 1];
		p += 2;
		WsFrame f; f.fin = b0 & 0x80; f.rsv = (b0 >> 4) & 7; f.opcode = b0 & 0xF; f.masked = b1 & 0x80;
		uint64_t len = b1 & 0x7F;
		if (len == 126) {
			if (buf.size() - p < 2) return true;
			len = ((uint8_t)buf[p] << 8) | (uint8_t)buf[p + 1]; p += 2;
			f.lenenc = 1; f.minimal = len >= 126;
		} else if (len == 127) {
			if (buf.size() - p < 8) return true;
			len = 0; for (int i = 0; i < 8; i++) len = (len << 8) | (uint8_t)buf[p + i];
			p += 8; f.lenenc = 2; f.minimal = len >= 65536;
		}
		if (f.masked) { if (buf.size() - p < 4) return true; memcpy(f.mask, buf.data() + p, 4); p += 4; }
		if (len > (1u << 30)) return false;
		if (buf.size() - p < len) return true;
		f.payload = buf.substr(p, len);
		if (f.masked) for (size_t i = 0; i < f.payload.size(); i++) f.payload[i] ^= f.mask[i % 4];
		p += len;
		out.push_back(f);
		pos = p;
	}
}

// ---- HTTP response head
struct HttpHead { bool complete = false; int status = 0; std::string version; std::vector<std::pair<std::string, std::string>> headers; size_t length = 0;
	std::string header(const std::string &name) const {
		for (auto &h : headers) { if (h.first.size() == name.size()) { bool eq = true; for (size_t i = 0; i < name.size(); i++) if (tolower((unsigned char)h.first[i]) != tolower((unsigned char)name[i])) { eq = false; break; } if (eq) return h.second; } }
		return "";
	}
};

inline HttpHead parse_http_head(const std::string &buf)
{
	HttpHead h;
	size_t end = buf.find("\r\n\r\n");
	if (end == std::string::npos) return h;
	h.length = end + 4;
	size_t pos = 0, eol = buf.find("\r\n");
	std::string line = buf.substr(0, eol);
	if (line.compare(0, 5, "HTTP/") != 0) return h;
	size_t sp = line.find(' ');
	if (sp == std::string::npos) return h;
	h.version = line.substr(5, sp - 5);
	h.status = atoi(line.c_str() + sp + 1);
	pos = eol + 2;
	while (pos < end + 2) {
		eol = buf.find("\r\n", pos);
		line = buf.substr(pos, eol - pos);
		pos = eol + 2;
		if (line.empty()) break;
		size_t c = line.find(':');
		if (c == std::string::npos) continue;
		std::string v = line.substr(c + 1);
		while (!v.empty() && v[0] == ' ') v.erase(0, 1);
		h.headers.emplace_back(line.substr(0, c), v);
	}
	h.complete = true;
	return h;
}

} // namespace codec
