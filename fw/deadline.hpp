// Wall-clock budget of a campaign (VERIF_DEADLINE = epoch seconds, set by bin/check): once it has passed, further generated
// cases are skipped (counted, never judged). A budget hit means "explored less", never a violation.
#pragma once
#include <cstdlib>
#include <ctime>
namespace budget {
inline double deadline() { static double d = [] { const char *e = getenv("VERIF_DEADLINE"); return e && *e ? atof(e) : 0.0; }(); return d; }
inline bool over() { double d = deadline(); if (d <= 0) return false; struct timespec ts; clock_gettime(CLOCK_REALTIME, &ts); return (double)ts.tv_sec + ts.tv_nsec * 1e-9 > d; }
inline long &skipped() { static long n = 0; return n; }
}
