// Scenario = the generated value and the replay format (plain data).
#pragma once
#include "json.hpp"
#include <cstdint>
#include <string>
#include <vector>

namespace scen {

enum OpKind {
	CONNECT = 0, // a=transport(0 raw,1 ws,2 uds) b=origin c=handshake variant (0 = valid)
	END,         // a=1 eof,2 hup,3 reset
	BYTES,       // s=raw bytes (unframed)
	MSG,         // s=payload, framed for the transport
	ADD,         // a=path b=value(-1: method) c=bit0 fetchOnly d=timeout idx (0 none) v[0]=access idx (0 none)
	REMOVE,      // a=path
	CHANGE,      // a=path b=value
	FETCH,       // a=fetch id idx b=rule idx
	UNFETCH,     // a=fetch id idx
	GET,         // b=rule idx
	SET,         // a=path b=value d=timeout idx
	CALL,        // a=path b=args(-1 none) d=timeout idx
	REPLY,       // a=which in-flight request of this owner b=mode c=payload value
	CONFIG,      // a=name idx
	INFO,
	AUTH,        // a=user idx b=0 right password,1 wrong,2 unknown user
	PASSWD,      // a=user idx b=new password idx
	ADVANCE,     // a=duration idx
	WPLAN,       // v=encoded write decisions
	DRAIN,
	FAULT,       // a=call idx b=nth c=errno idx
	CHUNK,       // v=chunk sizes for the next reads
	JUNK,        // a=pattern
	MUTREQ,      // a=method idx b=path idx c=mutation d=value idx: a well-formed request with one member removed or mistyped
	RAWREQ,      // a=shape b=id variant c=extra: request object of an unusual but model-decidable shape (see world.hpp)
	BATCH,       // a=count: the next `a` request ops are sent by this connection as one batch array
	PREFIX,      // a=0: zero length prefix (must be skipped), a>0: a length above the configured maximum (connection ends)
	PARTIAL,     // a=cut position b=what: only the first bytes of a well-formed framed request arrive; the stream is useless afterwards
	WSFRAME,     // a=opcode b=flags(bit0 fin,bit1 masked,bits2-4 rsv) c=lenenc d=declared-length mode s=payload
	NKINDS
};

static const char *const kind_names[] = {"connect", "end", "bytes", "msg", "add", "remove", "change", "fetch", "unfetch", "get", "set", "call",
                                          "reply", "config", "info", "auth", "passwd", "advance", "wplan", "drain", "fault", "chunk", "junk", "mutreq", "rawreq", "batch", "prefix", "partial", "wsframe"};

enum ReplyMode { RP_RESULT = 0, RP_ERROR = 1, RP_FORGED = 2, RP_DUPLICATE = 3, RP_OTHERS_RID = 4, RP_NMODES };
enum IdMode { ID_NUM = 0, ID_STR = 1, ID_NONE = 2, ID_LONG = 3 }; // ID_LONG: string ids of 70+ bytes that share their first 70 bytes

struct Op {
	int kind = INFO;
	int conn = 0;
	int a = 0, b = 0, c = 0, d = 0;
	int idm = ID_NUM;
	bool join = false; // apply in the same step as the previous op
	std::string s;
	std::vector<int> v;
};

struct Scenario {
	std::string variant = "default";
	int malloc_fill = 0xBE;
	std::string cred;                 // credential file content ("" = daemon started without -p)
	std::vector<std::string> paths;   // pools; empty = built-in
	std::vector<std::string> values;  // JSON texts
	std::vector<std::string> rules;   // JSON texts of the fetch "path" object; "" = no rule (fetch all)
	std::vector<std::string> passwords; // per user index (for AUTH), parallel to users
	std::vector<std::string> users;
	std::vector<std::string> accesses; // JSON texts of "access" objects, index 0 unused (none)
	std::vector<Op> ops;
	int end = 0;       // 0 close all then SIGTERM, 1 SIGTERM with connections open
	int order_seed = 0; // event-batch ordering policy (0 = FIFO)
	bool local_flag = false; // start daemon with -l
	int chunk_all = 0;       // > 0: every read() on a connection returns at most this many bytes
	int junk_all = -1;       // >= 0: after a short read the unused tail of the caller's buffer is overwritten with pattern #junk_all
	int early_prefix = 0;    // != 0: a prefix of the next step's message (other connection) already arrives during the current step
	int fail_alloc = -1;     // >= 0: the allocation with this index (counted from the idle baseline) fails
	std::vector<int> fail_allocs; // further failing allocation indices (multi-fault runs)
	std::vector<std::vector<int>> variants; // C09: alternative schedules {dribble, chunk_all, junk_all, early_prefix} that must give identical output
	int batching = 0;        // != 0: consecutive single operations of distinct connections are delivered in one readiness batch (same processing order)
	int dribble = 0;         // != 0: in single-operation steps every delivery is split in two arrivals (second after the daemon went idle)
};

inline bool printable(const std::string &s)
{
	for (unsigned char c : s) if (c < 0x20 || c >= 0x7f) return false;
	return true;
}
inline std::string tohex(const std::string &s)
{
	static const char *h = "0123456789abcdef";
	std::string o;
	for (unsigned char c : s) { o += h[c >> 4]; o += h[c & 15]; }
	return o;
}
inline std::string fromhex(const std::string &s)
{
	std::string o;
	auto hv = [](char c) { return c >= 'a' ? c - 'a' + 10 : c >= 'A' ? c - 'A' + 10 : c - '0'; };
	for (size_t i = 0; i + 1 < s.size(); i += 2) o += (char)(hv(s[i]) * 16 + hv(s[i + 1]));
	return o;
}
inline void put_bytes(js::Value &o, const char *key, const std::string &s)
{
	if (printable(s)) o.set(key, js::Value::str(s));
	else o.set(std::string(key) + "_hex", js::Value::str(tohex(s)));
}
inline std::string get_bytes(const js::Value &o, const char *key)
{
	if (auto *v = o.get(key)) return v->s;
	if (auto *v = o.get(std::string(key) + "_hex")) return fromhex(v->s);
	return "";
}
inline js::Value strlist(const std::vector<std::string> &v)
{
	js::Value a = js::Value::arr();
	for (auto &s : v) { js::Value o = js::Value::obj(); put_bytes(o, "s", s); a.push(o); }
	return a;
}
inline std::vector<std::string> get_strlist(const js::Value *a)
{
	std::vector<std::string> v;
	if (a) for (auto &x : a->a) v.push_back(x.is_str() ? x.s : get_bytes(x, "s"));
	return v;
}

inline js::Value to_json(const Op &op)
{
	js::Value o = js::Value::obj();
	o.set("k", js::Value::str(op.kind >= 0 && op.kind < NKINDS ? kind_names[op.kind] : "?"));
	o.set("conn", js::Value::num(op.conn));
	if (op.a) o.set("a", js::Value::num(op.a));
	if (op.b) o.set("b", js::Value::num(op.b));
	if (op.c) o.set("c", js::Value::num(op.c));
	if (op.d) o.set("d", js::Value::num(op.d));
	if (op.idm) o.set("idm", js::Value::num(op.idm));
	if (op.join) o.set("join", js::Value::boolean(true));
	if (!op.s.empty()) put_bytes(o, "s", op.s);
	if (!op.v.empty()) { js::Value a = js::Value::arr(); for (int x : op.v) a.push(js::Value::num(x)); o.set("v", a); }
	return o;
}

inline js::Value to_json(const Scenario &sc)
{
	js::Value o = js::Value::obj();
	o.set("variant", js::Value::str(sc.variant));
	o.set("malloc_fill", js::Value::num(sc.malloc_fill));
	if (!sc.cred.empty()) o.set("cred", js::Value::str(sc.cred));
	if (!sc.paths.empty()) o.set("paths", strlist(sc.paths));
	if (!sc.values.empty()) o.set("values", strlist(sc.values));
	if (!sc.rules.empty()) o.set("rules", strlist(sc.rules));
	if (!sc.users.empty()) o.set("users", strlist(sc.users));
	if (!sc.passwords.empty()) o.set("passwords", strlist(sc.passwords));
	if (!sc.accesses.empty()) o.set("accesses", strlist(sc.accesses));
	o.set("end", js::Value::num(sc.end));
	o.set("order_seed", js::Value::num(sc.order_seed));
	if (sc.local_flag) o.set("local_flag", js::Value::boolean(true));
	if (sc.dribble) o.set("dribble", js::Value::num(sc.dribble));
	if (sc.fail_alloc >= 0) o.set("fail_alloc", js::Value::num(sc.fail_alloc));
	if (!sc.fail_allocs.empty()) { js::Value a = js::Value::arr(); for (int x : sc.fail_allocs) a.push(js::Value::num(x)); o.set("fail_allocs", a); }
	if (sc.chunk_all) o.set("chunk_all", js::Value::num(sc.chunk_all));
	if (sc.junk_all >= 0) o.set("junk_all", js::Value::num(sc.junk_all));
	if (sc.early_prefix) o.set("early_prefix", js::Value::num(sc.early_prefix));
	if (sc.batching) o.set("batching", js::Value::num(sc.batching));
	if (!sc.variants.empty()) { js::Value vs = js::Value::arr(); for (auto &v : sc.variants) { js::Value a = js::Value::arr(); for (int x : v) a.push(js::Value::num(x)); vs.push(a); } o.set("variants", vs); }
	js::Value ops = js::Value::arr();
	for (auto &op : sc.ops) ops.push(to_json(op));
	o.set("ops", ops);
	return o;
}

inline int geti(const js::Value &o, const char *k, int def = 0) { auto *v = o.get(k); return v && v->is_num() ? (int)v->d : def; }

inline bool from_json(const js::Value &o, Scenario &sc)
{
	if (!o.is_obj()) return false;
	if (auto *v = o.get("variant")) sc.variant = v->s;
	sc.malloc_fill = geti(o, "malloc_fill", 0xBE);
	if (auto *v = o.get("cred")) sc.cred = v->s;
	sc.paths = get_strlist(o.get("paths"));
	sc.values = get_strlist(o.get("values"));
	sc.rules = get_strlist(o.get("rules"));
	sc.users = get_strlist(o.get("users"));
	sc.passwords = get_strlist(o.get("passwords"));
	sc.accesses = get_strlist(o.get("accesses"));
	sc.end = geti(o, "end");
	sc.order_seed = geti(o, "order_seed");
	if (auto *v = o.get("local_flag")) sc.local_flag = v->b;
	sc.dribble = geti(o, "dribble");
	sc.fail_alloc = geti(o, "fail_alloc", -1);
	if (auto *fa = o.get("fail_allocs")) for (auto &e : fa->a) sc.fail_allocs.push_back((int)e.d);
	sc.chunk_all = geti(o, "chunk_all"); sc.junk_all = geti(o, "junk_all", -1); sc.early_prefix = geti(o, "early_prefix"); sc.batching = geti(o, "batching");
	if (auto *vs = o.get("variants")) for (auto &v : vs->a) { std::vector<int> x; for (auto &e : v.a) x.push_back((int)e.d); sc.variants.push_back(x); }
	auto *ops = o.get("ops");
	if (!ops) return false;
	for (auto &x : ops->a) {
		Op op;
		auto *k = x.get("k");
		op.kind = -1;
		if (k) for (int i = 0; i < NKINDS; i++) if (k->s == kind_names[i]) op.kind = i;
		if (op.kind < 0) return false;
		op.conn = geti(x, "conn"); op.a = geti(x, "a"); op.b = geti(x, "b"); op.c = geti(x, "c"); op.d = geti(x, "d");
		op.idm = geti(x, "idm");
		if (auto *j = x.get("join")) op.join = j->b;
		op.s = get_bytes(x, "s");
		if (auto *v = x.get("v")) for (auto &e : v->a) op.v.push_back((int)e.d);
		sc.ops.push_back(op);
	}
	return true;
}

inline uint64_t fnv(const std::string &s)
{
	uint64_t h = 1469598103934665603ull;
	for (unsigned char c : s) { h ^= c; h *= 1099511628211ull; }
	return h;
}
inline uint64_t hash(const Scenario &sc) { return fnv(js::dump(to_json(sc))); }

} // namespace scen
