// Reference model of the Jet protocol as served by one daemon: elements, fetches, routed requests,
// access groups. For every client message it yields the observable consequences per connection.
// It asserts only what the properties state: response kind + id, notification (fetch id, path, event,
// value), routed message (method, params), forwarded payloads. Never the wording of errors.
#pragma once
#include "json.hpp"
#include <cstdint>
#include <map>
#include <set>
#include <string>
#include <vector>

namespace model {
using js::Value;

inline char fold(char c) { return (c >= 'A' && c <= 'Z') ? (char)(c - 'A' + 'a') : c; }
inline std::string folded(const std::string &s) { std::string o = s; for (auto &c : o) c = fold(c); return o; }

struct Matcher { std::string name; std::vector<std::string> ops; };

struct Rule {
	bool present = false;   // a "path" member was given
	bool valid = true;      // false => request must be refused
	bool ambiguous = false; // statement does not settle it: error or lenient reading both fine
	bool ci = false;
	bool repeated_ci = false; // option key given more than once: refused or treated as given once
	std::vector<Matcher> matchers;

	static bool one(const Matcher &m, const std::string &path0, bool ci)
	{
		std::string path = ci ? folded(path0) : path0;
		auto op = [&](size_t i) { return ci ? folded(m.ops[i]) : m.ops[i]; };
		if (m.name == "equals") return path == op(0);
		if (m.name == "equalsNot") return path != op(0);
		if (m.name == "startsWith") { std::string o = op(0); return path.size() >= o.size() && path.compare(0, o.size(), o) == 0; }
		if (m.name == "endsWith") { std::string o = op(0); return path.size() >= o.size() && path.compare(path.size() - o.size(), o.size(), o) == 0; }
		if (m.name == "contains") return path.find(op(0)) != std::string::npos;
		if (m.name == "containsAllOf") { for (size_t i = 0; i < m.ops.size(); i++) if (path.find(op(i)) == std::string::npos) return false; return true; }
		return false;
	}
	bool match(const std::string &path) const
	{
		if (!present) return true;
		for (auto &m : matchers) if (!one(m, path, ci)) return false;
		return true;
	}
};

inline bool known_matcher(const std::string &n)
{
	return n == "equals" || n == "equalsNot" || n == "startsWith" || n == "endsWith" || n == "contains" || n == "containsAllOf";
}

// pathobj: the "path" member of params (may be null)
inline Rule parse_rule(const Value *pathobj, unsigned max_matchers = 12)
{
	Rule r;
	if (!pathobj) return r;
	r.present = true;
	if (!pathobj->is_obj()) { r.valid = false; return r; }
	int ci_seen = 0; bool ci_val = false;
	for (auto &m : pathobj->o) {
		if (m.first == "caseInsensitive") {
			bool v = m.second.is_bool() && m.second.b;
			if (!m.second.is_bool()) r.ambiguous = true;
			if (ci_seen && v != ci_val) r.ambiguous = true; // repeated with different values
			ci_seen++; ci_val = ci_val || v;
			continue;
		}
		Matcher mt; mt.name = m.first;
		if (!known_matcher(m.first)) { r.valid = false; continue; }
		if (m.first == "containsAllOf") {
			if (!m.second.is_arr()) { r.valid = false; continue; }
			if (m.second.a.empty()) r.ambiguous = true;
			for (auto &e : m.second.a) { if (!e.is_str()) r.valid = false; else mt.ops.push_back(e.s); }
		} else {
			if (!m.second.is_str()) { r.valid = false; continue; }
			mt.ops.push_back(m.second.s);
		}
		r.matchers.push_back(mt);
	}
	r.ci = ci_val;
	if (ci_seen > 1) r.repeated_ci = true;
	if (r.matchers.empty() && r.valid) r.valid = false;        // no matcher in path object
	if (r.matchers.size() > max_matchers) r.valid = false;
	return r;
}

struct Fetch { Value id; Rule rule; };

struct Elem {
	int owner = -1;
	bool is_state = false;
	Value value;
	bool fetch_only = false;
	uint64_t timeout_ns = 0;
	std::set<std::string> fg, sg, cg;
};

struct Peer {
	bool alive = false;
	bool local = true;
	bool authed = false;
	std::string user;
	std::set<std::string> fg, sg, cg;
	std::vector<Fetch> fetches;
	std::vector<std::string> owned;
};

struct Inflight {
	uint64_t seq = 0;
	int caller = -1; bool has_id = false; Value caller_id;
	int owner = -1; std::string path; bool is_set = false; Value payload;
	uint64_t deadline = 0;
	uint64_t tns = 0; // duration the daemon must arm
	std::string rid; // learned from the owner's transcript
};

struct User { std::string password; std::set<std::string> fg, sg, cg; bool admin = false, readonly = false; bool has_password = true; bool has_auth = true; };

struct Exp {
	enum K { RESULT, ERROR, EITHER, NOTIFY, ROUTED } k = RESULT;
	Value id;            // response id
	int rmode = 0;       // RESULT: 0 any value, 1 equals `value`, 2 array equal as multiset to `value`, 3 true
	bool forwarded = false; // RESULT/ERROR: payload member must equal `value`
	Value value;
	Value fetch_id; std::string path, event; bool has_value = false;
	uint64_t inflight_seq = 0; bool is_set = false;
	bool alt_refusal = false; // an internal-error refusal instead is acceptable (resource limit)
	std::string why;
};
using Group = std::vector<Exp>;
struct StepExp {
	std::map<int, std::vector<Group>> by_conn;
	std::vector<int> dropped; // peers the daemon is expected to drop in this step
	bool alt_refusal = false;  // the request of this step may instead be refused at a resource limit (no effect at all)
	void add(int conn, const Exp &e) { by_conn[conn].push_back(Group{e}); }
	void add_to_last_or_new(int conn, const Exp &e, bool same_group) { auto &v = by_conn[conn]; if (same_group && !v.empty()) v.back().push_back(e); else v.push_back(Group{e}); }
};

struct Config {
	bool local_only_add = false;
	unsigned elem_order = 13, route_order = 6;
	double default_timeout_s = 5.0;
	unsigned max_matchers = 12;
};

// numeric fetch ids are compared the way cJSON stores integers: saturated to the int range
inline long long sat_int(double d) { if (d != d) return 0; if (d >= 2147483647.0) return 2147483647LL; if (d <= -2147483648.0) return -2147483648LL; return (long long)d; }

inline bool valid_id(const Value *id) { return id && (id->is_str() || id->is_num()); }

struct Model {
	Config cfg;
	bool cred_loaded = false;
	std::map<std::string, User> users;
	std::vector<Peer> peers; // index = logical connection
	std::map<std::string, Elem> elems;
	std::vector<Inflight> inflight;
	uint64_t next_seq = 1;
	uint64_t now_ns = 0;
	// bookkeeping for non-triviality rules
	std::map<std::string, long> stat;
	std::set<std::string> gone_paths; // paths that existed and disappeared (remove or owner disconnect)

	Peer &peer(int p) { if ((size_t)p >= peers.size()) peers.resize(p + 1); return peers[p]; }
	void connect(int p, bool local) { Peer &x = peer(p); x = Peer(); x.alive = true; x.local = local; }

	bool visible(const Elem &e, const Peer &p) const
	{
		if (!cred_loaded) return true;
		for (auto &g : e.fg) if (p.fg.count(g)) return true;
		return false;
	}
	static bool intersects(const std::set<std::string> &a, const std::set<std::string> &b) { for (auto &g : a) if (b.count(g)) return true; return false; }
	std::set<std::string> known_groups() const
	{
		std::set<std::string> s;
		for (auto &u : users) { s.insert(u.second.fg.begin(), u.second.fg.end()); s.insert(u.second.sg.begin(), u.second.sg.end()); s.insert(u.second.cg.begin(), u.second.cg.end()); }
		return s;
	}

	// ---- expectations helpers
	static Exp resp(Exp::K k, const Value &id, const std::string &why) { Exp e; e.k = k; e.id = id; e.why = why; return e; }
	void respond(StepExp &x, int p, const Value *id, Exp::K k, const std::string &why, int rmode = 0, const Value *val = nullptr)
	{
		if (!valid_id(id)) return;
		Exp e = resp(k, *id, why); e.rmode = rmode; if (val) e.value = *val;
		x.add(p, e);
	}
	void notify_all(StepExp &x, const std::string &path, const Elem &e, const char *event, int only_peer = -1, const Fetch *only_fetch = nullptr, std::vector<Exp> *collect = nullptr)
	{
		for (size_t pi = 0; pi < peers.size(); pi++) {
			Peer &p = peers[pi];
			if (!p.alive) continue;
			if (only_peer >= 0 && (int)pi != only_peer) continue;
			if (!visible(e, p)) continue;
			bool first = true;
			for (auto &f : p.fetches) {
				if (only_fetch && &f != only_fetch) continue;
				if (!f.rule.match(path)) continue;
				Exp n; n.k = Exp::NOTIFY; n.fetch_id = f.id; n.path = path; n.event = event; n.has_value = e.is_state; n.value = e.value;
				n.why = std::string(event) + " " + path;
				if (collect) collect->push_back(n);
				else { x.add_to_last_or_new((int)pi, n, !first); first = false; }
				stat["notify"]++;
			}
		}
	}

	static std::set<std::string> group_names(const Value *arr, const std::set<std::string> &known)
	{
		std::set<std::string> s;
		if (arr && arr->is_arr()) for (auto &g : arr->a) if (g.is_str() && known.count(g.s)) s.insert(g.s);
		return s;
	}

	// timeout member: returns 0 ok (out set), -1 invalid
	int timeout_of(const Value *t, uint64_t def, uint64_t &out) const
	{
		if (!t) { out = def; return 0; }
		if (!t->is_num()) return -1;
		if (t->d < 0.001) return -1;
		double ns = t->d * 1000000000.0;
		out = (ns >= 1.8e19 || ns != ns) ? UINT64_MAX : (uint64_t)ns;
		return 0;
	}

	size_t inflight_of_owner(int owner) const { size_t n = 0; for (auto &r : inflight) if (r.owner == owner) n++; return n; }

	// ---- a peer goes away (client end, or daemon drops it)
	void drop(int pi, StepExp &x)
	{
		Peer &p = peer(pi);
		if (!p.alive) return;
		// 1. requests routed to this peer are answered with an error to their callers
		std::vector<Inflight> keep;
		std::map<int, Group> answers;
		for (auto &r : inflight) {
			if (r.owner == pi) {
				if (r.has_id && r.caller != pi && peers[r.caller].alive) answers[r.caller].push_back(resp(Exp::ERROR, r.caller_id, "owner of routed request went away"));
				stat["shutdown_answer"]++;
			} else if (r.caller == pi) {
				stat["own_inflight_dropped"]++; // 2. its own requests are dropped
			} else keep.push_back(r);
		}
		inflight = keep;
		for (auto &a : answers) x.by_conn[a.first].push_back(a.second);
		// 3. fetches end
		p.fetches.clear();
		// 4. elements disappear, subscribers see remove (order among them is not specified)
		std::vector<std::string> owned = p.owned;
		p.alive = false; // the leaving peer is no subscriber any more
		std::map<int, Group> removes;
		for (auto &path : owned) {
			auto it = elems.find(path);
			if (it == elems.end()) continue;
			StepExp tmp;
			notify_all(tmp, path, it->second, "remove");
			for (auto &c : tmp.by_conn) for (auto &g : c.second) for (auto &e : g) removes[c.first].push_back(e);
			elems.erase(it);
			gone_paths.insert(path);
			stat["elem_removed_by_disconnect"]++;
		}
		for (auto &r : removes) x.by_conn[r.first].push_back(r.second);
		p.owned.clear();
		x.dropped.push_back(pi);
	}

	// ---- one JSON-RPC object from peer pi
	// returns false if the daemon is expected to drop the connection because of it
	bool on_object(int pi, const Value &m, StepExp &x)
	{
		Peer &p = peer(pi);
		const Value *method = m.get("method");
		const Value *id = m.get("id");
		if (!method) {
			const Value *payload = m.get("result"); const char *kind = "result";
			if (!payload) { payload = m.get("error"); kind = "error"; }
			if (!payload) { respond(x, pi, id, Exp::ERROR, "neither request nor response"); return true; }
			if (!id || !id->is_str()) return false; // response without usable id: connection is dropped
			for (size_t i = 0; i < inflight.size(); i++) {
				Inflight &r = inflight[i];
				if (r.owner == pi && !r.rid.empty() && r.rid == id->s) {
					if (r.has_id && peers[r.caller].alive) {
						Exp e = resp(strcmp(kind, "result") == 0 ? Exp::RESULT : Exp::ERROR, r.caller_id, "routed reply"); e.forwarded = true; e.value = *payload;
						x.add(r.caller, e);
					}
					inflight.erase(inflight.begin() + i);
					stat["reply_forwarded"]++;
					return true;
				}
			}
			stat["reply_ignored"]++;
			return true; // unknown / late / forged id: ignored
		}
		if (!method->is_str()) { respond(x, pi, id, Exp::ERROR, "method not a string"); return true; }
		const std::string &name = method->s;
		const Value *params = m.get("params");
		static const Value empty_obj = Value::obj();
		auto P = [&](const char *k) -> const Value * { return params && params->is_obj() ? params->get(k) : nullptr; };
		auto err = [&](const char *why) { respond(x, pi, id, Exp::ERROR, std::string(name) + ": " + why); return true; };

		if (name == "info") { respond(x, pi, id, Exp::RESULT, "info"); return true; }
		if (name != "add" && name != "remove" && name != "change" && name != "fetch" && name != "unfetch" && name != "get" && name != "set" &&
		    name != "call" && name != "config" && name != "authenticate" && name != "passwd")
			return err("unknown method");
		if (!params) return err("no params");

		if (name == "config") {
			const Value *n = P("name");
			if (n && !n->is_str()) return err("name not a string");
			respond(x, pi, id, Exp::RESULT, "config", 3);
			return true;
		}
		if (name == "authenticate") {
			const Value *u = P("user"), *pw = P("password");
			if (!u || !u->is_str() || !pw || !pw->is_str()) return err("bad credentials shape");
			if (!p.fetches.empty()) return err("fetched before authenticate");
			auto it = users.find(u->s);
			if (!cred_loaded || it == users.end() || !it->second.has_password || it->second.password != pw->s || !it->second.has_auth) { stat["auth_fail"]++; return err("invalid credentials"); }
			p.authed = true; p.user = u->s; p.fg = it->second.fg; p.sg = it->second.sg; p.cg = it->second.cg;
			stat["auth_ok"]++;
			respond(x, pi, id, Exp::RESULT, "authenticate", 3);
			return true;
		}
		if (name == "passwd") {
			const Value *u = P("user"), *pw = P("password");
			if (!u || !u->is_str() || !pw || !pw->is_str()) return err("bad passwd shape");
			if (!p.authed) return err("not authenticated");
			auto it = users.find(u->s);
			if (it == users.end()) return err("unknown user");
			auto me = users.find(p.user);
			bool admin = me != users.end() && me->second.admin;
			if (it->second.readonly || !(p.user == u->s || admin)) return err("not allowed");
			if (!it->second.has_password) return err("no password entry");
			// success changes the credential
			Exp e = resp(Exp::RESULT, id ? *id : Value(), "passwd"); e.rmode = 3; e.alt_refusal = true; x.alt_refusal = true; // a failing file system may refuse
			if (valid_id(id)) x.add(pi, e);
			it->second.password = pw->s;
			stat["passwd_ok"]++;
			return true;
		}
		if (!p.authed && (name == "get" || name == "fetch" || name == "set" || name == "call")) stat["unauth_requests"]++;
		if (name == "add") stat[p.local ? "add_from_local" : "add_from_remote"]++;
		if (name == "get") {
			Rule r = parse_rule(P("path"), cfg.max_matchers);
			if (!r.valid) return err("bad rule");
			Value arr = Value::arr();
			for (auto &kv : elems) {
				const Elem &e = kv.second;
				if (!e.is_state || !visible(e, p) || !r.match(kv.first)) continue;
				Value o = Value::obj(); o.set("path", Value::str(kv.first)); o.set("value", e.value);
				arr.push(o);
			}
			Exp e = resp(r.ambiguous || r.repeated_ci ? Exp::EITHER : Exp::RESULT, id ? *id : Value(), "get"); e.rmode = 2; e.value = arr;
			if (valid_id(id)) x.add(pi, e);
			stat["get"]++;
			return true;
		}
		if (name == "fetch") {
			if (P("match")) return err("deprecated match");
			const Value *fid = P("id");
			if (!fid || !(fid->is_str() || fid->is_num())) return err("bad fetch id");
			for (auto &f : p.fetches) if (f.id.t == fid->t && (fid->is_str() ? f.id.s == fid->s : sat_int(f.id.d) == sat_int(fid->d))) return err("fetch id in use");
			Rule r = parse_rule(P("path"), cfg.max_matchers);
			if (!r.valid) return err("bad rule");
			// statement: a repeated option key is refused or treated as given once; unsettled shapes: refused or lenient
			if (r.ambiguous || r.repeated_ci) { stat["ambiguous_rule"]++; x.alt_refusal = true; }
			Fetch f; f.id = *fid; f.rule = r;
			p.fetches.push_back(f);
			std::vector<Exp> adds;
			for (auto &kv : elems) if (visible(kv.second, p) && r.match(kv.first)) {
				Exp n; n.k = Exp::NOTIFY; n.fetch_id = f.id; n.path = kv.first; n.event = "add"; n.has_value = kv.second.is_state; n.value = kv.second.value; n.why = "fetch add " + kv.first;
				adds.push_back(n);
			}
			if (!adds.empty()) x.by_conn[pi].push_back(adds);
			respond(x, pi, id, Exp::RESULT, "fetch", 3);
			stat["fetch"]++;
			return true;
		}
		if (name == "unfetch") {
			const Value *fid = P("id");
			if (!fid || !(fid->is_str() || fid->is_num())) return err("bad fetch id");
			for (size_t i = 0; i < p.fetches.size(); i++) {
				Fetch &f = p.fetches[i];
				if (f.id.t == fid->t && (fid->is_str() ? f.id.s == fid->s : sat_int(f.id.d) == sat_int(fid->d))) {
					p.fetches.erase(p.fetches.begin() + i);
					respond(x, pi, id, Exp::RESULT, "unfetch", 3);
					stat["unfetch"]++;
					return true;
				}
			}
			return err("fetch id not found");
		}
		// element operations need a path
		const Value *path = P("path");
		if (!path || !path->is_str()) return err("bad path");
		auto it = elems.find(path->s);

		if (name == "add") {
			if (cfg.local_only_add && !p.local) return err("add only from localhost");
			const Value *fo = P("fetchOnly");
			if (fo && !fo->is_bool()) return err("fetchOnly not bool");
			uint64_t tns;
			if (timeout_of(P("timeout"), (uint64_t)(cfg.default_timeout_s * 1e9), tns) < 0) return err("bad timeout");
			if (it != elems.end()) { stat["add_exists"]++; return err("exists"); }
			const Value *access = P("access");
			Elem e; e.owner = pi; e.fetch_only = fo && fo->b; e.timeout_ns = tns;
			const Value *val = P("value");
			e.is_state = val != nullptr; if (val) e.value = *val;
			if (access && access->is_obj()) {
				auto known = known_groups();
				const Value *g = access->get("fetchGroups"); if (g && !g->is_arr()) return err("fetchGroups not array");
				e.fg = group_names(g, known);
				if (e.is_state) { g = access->get("setGroups"); if (g && !g->is_arr()) return err("setGroups not array"); e.sg = group_names(g, known); }
				else { g = access->get("callGroups"); if (g && !g->is_arr()) return err("callGroups not array"); e.cg = group_names(g, known); }
			}
			bool may_refuse = elems.size() >= (1u << (cfg.elem_order - 1));
			if (gone_paths.count(path->s)) stat["readd_after_gone"]++;
			elems[path->s] = e;
			p.owned.push_back(path->s);
			notify_all(x, path->s, e, "add");
			Exp r = resp(Exp::RESULT, id ? *id : Value(), "add " + path->s); r.rmode = 3; r.alt_refusal = may_refuse; if (may_refuse) x.alt_refusal = true;
			if (valid_id(id)) x.add(pi, r);
			stat["add_ok"]++;
			return true;
		}
		if (name == "remove") {
			if (it == elems.end() || it->second.owner != pi) { stat["remove_refused"]++; return err("not exists / not owner"); }
			notify_all(x, path->s, it->second, "remove");
			elems.erase(it);
			gone_paths.insert(path->s);
			for (size_t i = 0; i < p.owned.size(); i++) if (p.owned[i] == path->s) { p.owned.erase(p.owned.begin() + i); break; }
			respond(x, pi, id, Exp::RESULT, "remove", 3);
			stat["remove_ok"]++;
			return true;
		}
		if (name == "change") {
			const Value *val = P("value");
			if (!val) return err("no value");
			if (it == elems.end()) return err("not exists");
			if (it->second.owner != pi) { stat["change_refused_owner"]++; return err("not owner"); }
			if (!it->second.is_state) { stat["change_refused_method"]++; return err("change on method"); }
			it->second.value = *val;
			notify_all(x, path->s, it->second, "change");
			respond(x, pi, id, Exp::RESULT, "change", 3);
			stat["change_ok"]++;
			return true;
		}
		// set / call
		bool is_set = name == "set";
		if (it == elems.end()) { stat["route_refused"]++; return err("not exists"); }
		Elem &e = it->second;
		if (e.fetch_only) { stat["route_refused"]++; return err("fetchOnly"); }
		if (is_set != e.is_state) { stat["route_refused"]++; return err("wrong kind"); }
		if (cred_loaded && !intersects(is_set ? e.sg : e.cg, is_set ? p.sg : p.cg)) { stat["route_denied"]++; return err("not authorized"); }
		if (id && !valid_id(id)) return true; // error cannot be delivered, nothing routed
		const Value *val = is_set ? P("value") : P("args");
		if (is_set && !val) return err("no value");
		uint64_t tns;
		if (timeout_of(P("timeout"), e.timeout_ns, tns) < 0) return err("bad timeout");
		Inflight r; r.seq = next_seq++; r.caller = pi; r.has_id = id != nullptr; if (id) r.caller_id = *id;
		r.owner = e.owner; r.path = path->s; r.is_set = is_set; r.payload = val ? *val : Value::obj(); r.deadline = now_ns + tns; r.tns = tns;
		Exp rt; rt.k = Exp::ROUTED; rt.path = path->s; rt.is_set = is_set; rt.value = r.payload; rt.inflight_seq = r.seq; rt.why = "routed " + name + " " + path->s;
		rt.alt_refusal = inflight_of_owner(e.owner) >= (1u << (cfg.route_order - 1));
		if (rt.alt_refusal) x.alt_refusal = true;
		rt.id = id ? *id : Value(); // for the refusal alternative
		inflight.push_back(r);
		x.add(e.owner, rt);
		stat["routed"]++;
		return true;
	}

	// a complete message (already known to be valid JSON) from peer pi; returns false => daemon drops the peer
	bool on_message(int pi, const Value &m, StepExp &x)
	{
		if (!peer(pi).alive) return true;
		if (m.is_obj()) { if (!on_object(pi, m, x)) { drop(pi, x); return false; } return true; }
		if (m.is_arr()) {
			for (auto &e : m.a) {
				if (!e.is_obj()) { drop(pi, x); return false; }
				if (!on_object(pi, e, x)) { drop(pi, x); return false; }
				if (!peer(pi).alive) return false;
			}
			return true;
		}
		drop(pi, x);
		return false;
	}

	void advance(uint64_t ns, StepExp &x) { clock(ns); expire(x); }
	void clock(uint64_t ns) { now_ns += ns; }
	// the event loop processes the expiries that are due
	void expire(StepExp &x)
	{
		std::vector<Inflight> keep;
		std::map<int, Group> answers;
		for (auto &r : inflight) {
			if (r.deadline <= now_ns) {
				if (r.has_id && peers[r.caller].alive) answers[r.caller].push_back(resp(Exp::ERROR, r.caller_id, "timeout of routed request"));
				stat["timeout"]++;
			} else keep.push_back(r);
		}
		for (auto &a : answers) x.by_conn[a.first].push_back(a.second);
		inflight = keep;
	}
};

// Does the actual message satisfy the expectation? rid_out receives the routed id.
inline bool matches(const Exp &e, const Value &m, std::string *rid_out, std::string *why = nullptr)
{
	auto no = [&](const char *w) { if (why) *why = w; return false; };
	if (!m.is_obj()) return no("not an object");
	switch (e.k) {
	case Exp::RESULT: case Exp::ERROR: case Exp::EITHER: {
		if (m.has("method")) return no("is not a response");
		const Value *id = m.get("id");
		if (!id || !js::equal(*id, e.id)) return no("response id differs");
		bool hr = m.has("result"), he = m.has("error");
		if (hr == he) return no("must carry exactly one of result/error");
		if (e.k == Exp::RESULT && !hr) return no("expected result, got error");
		if (e.k == Exp::ERROR && !he) return no("expected error, got result");
		if (e.forwarded) { const Value *v = m.get(hr ? "result" : "error"); if (!js::equal(*v, e.value)) return no("forwarded payload changed"); }
		if (hr && !e.forwarded) {
			const Value *v = m.get("result");
			if (e.rmode == 1 && !js::equal(*v, e.value)) return no("result value differs");
			if (e.rmode == 3 && !(v->is_bool() && v->b)) return no("result is not true");
			if (e.rmode == 2) {
				if (!v->is_arr() || v->a.size() != e.value.a.size()) return no("result set differs (size)");
				std::vector<bool> used(v->a.size(), false);
				for (auto &want : e.value.a) {
					bool f = false;
					for (size_t j = 0; j < v->a.size(); j++) if (!used[j] && js::equal(want, v->a[j])) { used[j] = true; f = true; break; }
					if (!f) return no("result set differs");
				}
			}
		}
		return true;
	}
	case Exp::NOTIFY: {
		const Value *meth = m.get("method"); const Value *p = m.get("params");
		if (!meth || !p || m.has("id")) return no("is not a notification");
		if (!js::equal(*meth, e.fetch_id)) return no("fetch id differs");
		const Value *path = p->get("path"), *ev = p->get("event"), *val = p->get("value");
		if (!path || !path->is_str() || path->s != e.path) return no("path differs");
		if (!ev || !ev->is_str() || ev->s != e.event) return no("event differs");
		if (e.has_value != (val != nullptr)) return no("value presence differs");
		if (e.has_value && !js::equal(*val, e.value)) return no("value differs");
		return true;
	}
	case Exp::ROUTED: {
		const Value *meth = m.get("method"); const Value *p = m.get("params"); const Value *id = m.get("id");
		if (!meth || !p || !id) return no("is not a routed request");
		if (!id->is_str()) return no("routed id not a string");
		if (!meth->is_str() || meth->s != e.path) return no("routed method differs from path");
		if (e.is_set) { const Value *v = p->get("value"); if (!p->is_obj() || p->o.size() != 1 || !v || !js::equal(*v, e.value)) return no("routed value differs"); }
		else if (!js::equal(*p, e.value)) return no("routed args differ");
		if (rid_out) *rid_out = id->s;
		return true;
	}
	}
	return false;
}

} // namespace model
