// Simulated kernel for the cjet daemon: owns descriptors, epoll, clock, files, allocator.
// Single-threaded, deterministic. The daemon's objects reach it through objcopy-renamed symbols.
#pragma once
#include <cstdint>
#include <deque>
#include <functional>
#include <map>
#include <string>
#include <vector>

namespace simk {

enum Kind { K_NONE, K_SOCK, K_LISTEN, K_CONN, K_EPOLL, K_TIMER, K_FILE };
enum Endpoint { EP_RAW = 0, EP_HTTP = 1, EP_UDS = 2, EP_RAW4 = 3, EP_HTTP4 = 4 };
// where a connection comes from (peer address reported by accept)
enum Origin { OR_V4MAPPED_LOOPBACK = 0, OR_V6_LOOPBACK = 1, OR_V4MAPPED_REMOTE = 2, OR_V6_REMOTE = 3 };
enum EndKind { END_NONE = 0, END_EOF = 1, END_HUP = 2, END_RESET = 3 };
enum WKind { W_FULL = 0, W_PARTIAL = 1, W_EAGAIN = 2, W_ERR = 3 };

struct WriteDecision { int kind = W_FULL; size_t n = 0; int err = 0; };

// one writev() as seen by the kernel (for C10)
struct WriteCall {
	std::vector<std::string> iov; // buffers as passed
	long result;                  // bytes accepted or -errno
	uint64_t loop_iter;
};

struct Conn {
	int ep = EP_RAW, origin = 0;
	int fd = -1;            // daemon-side descriptor once accepted
	bool accepted = false;
	bool daemon_closed = false;
	bool aborted_in_accept = false;
	std::string inbound;    // bytes still to be read by the daemon
	std::deque<size_t> chunk_plan; // max bytes per read(); empty = unlimited
	int end_kind = END_NONE;
	bool end_reported = false;
	std::string out;        // every byte the kernel accepted from the daemon
	std::deque<WriteDecision> wplan;
	bool blocked = false;
	int junk = -1;          // -1 none, else pattern id
	size_t chunk_all = 0;   // > 0: upper bound for every read()
	std::vector<WriteCall> writes;
	uint64_t bytes_in = 0;
	size_t out_at_close = 0;
};

struct Fd {
	int kind = K_NONE;
	bool open = false;
	bool nonblock = false;
	bool linger = false; // SO_LINGER with a positive timeout: close() waits for unsent data even on a non-blocking socket
	int family = 0, port = 0;
	int ep = -1;
	std::deque<int> backlog;
	int conn = -1;
	// timer
	bool armed = false; uint64_t deadline = 0; uint64_t expirations = 0; uint64_t armed_at = 0; uint64_t armed_value = 0;
	// file
	int file = -1; long pos = 0;
	// epoll registration
	bool registered = false; int epfd = -1; uint64_t data = 0; uint32_t evmask = 0; bool in_ready = false; uint64_t ready_seq = 0;
};

struct TimerLog { int fd; uint64_t now; uint64_t value_ns; };
struct FileSnap { std::string call; std::string content; bool present = true; };

struct Fault { std::string call; long nth; int err; long arg; };

struct Kernel {
	std::vector<Fd> fds;
	std::vector<Conn> conns;
	uint64_t now_ns = 0;
	uint64_t loop_iter = 0;     // number of epoll_wait calls
	uint64_t calls_this_iter = 0;
	uint64_t ready_seq = 0;
	std::vector<std::string> hygiene;   // violations of descriptor discipline
	std::vector<std::string> logs;      // syslog lines
	std::vector<TimerLog> timer_log;
	std::map<std::string, long> call_count;
	std::vector<Fault> faults;
	void (*sigterm_handler)(int) = nullptr;
	bool daemonized = false;
	// files
	std::map<std::string, int> file_by_path;
	std::vector<std::string> file_content;
	std::vector<FileSnap> file_snaps;
	std::vector<long> write_short_plan; // per write() call on files: -1 full, else max bytes
	// allocator
	long alloc_calls = 0;
	long fail_alloc_at = -1;            // fail the allocation with this index (0-based), -1 never
	std::vector<long> fail_alloc_set;
	int malloc_fill = 0xBE;
	long alloc_failed_seen = 0;
	std::string failed_alloc_site;
	// random
	uint64_t rnd_state = 0x9E3779B97F4A7C15ull;
	size_t max_accounted = 0; // highest cjet_get_alloc_size() seen at any simulated call

	// hooks
	// called from epoll_wait when nothing is ready; return false => deliver SIGTERM
	std::function<bool()> on_idle;
	// choose events: in = ready descriptors in FIFO order; out = ordered subset (non-empty)
	std::function<void(std::vector<int> &)> pick;
	std::function<void()> on_iteration; // called at every epoll_wait entry
	bool terminate_requested = false;

	// world-side API
	int connect(int ep, int origin);
	void send(int conn, const std::string &bytes);
	void end(int conn, int kind);
	void drain(int conn);
	void advance(uint64_t ns);
	void add_fault(const std::string &call, long nth, int err, long arg = 0);
	void add_file(const std::string &path, const std::string &content);
	int listener_for(int ep) const;
	size_t open_fd_count() const;
	std::vector<int> open_fds() const;
	size_t armed_timers() const;
	size_t live_blocks() const;
	size_t live_bytes() const;
	std::string live_block_report(size_t max = 5) const;
	bool anything_ready() const;
	void mark_ready(int fd);
	void hyg(const std::string &s);
	void snap(const std::string &call);
	std::string watch_path = "/cred.json";
};

Kernel &K();
void reset();

} // namespace simk

extern "C" {
int cjet_main(int argc, char **argv);
size_t cjet_get_alloc_size(void);
int get_number_of_peers(void);
}
