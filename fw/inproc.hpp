// In-process execution of one scenario (for coverage-guided fuzz targets): the same code path as the forked child of
// driver.hpp, but the daemon's main() is entered again and again in one process. Everything that could leak from one
// iteration into the next is reset here; a violation never returns (the caller's `fatal` dumps the case and traps).
#pragma once
#include "world.hpp"
#include <getopt.h>

extern "C" {
extern int go_ahead;               // linux_io.c (made global by objcopy)
}

namespace inproc {
using scen::Scenario;
using world::RunOpts;
using world::Verdict;
using world::World;

inline Verdict run(const Scenario &sc, const RunOpts &opt, const std::function<void(World &)> &setup,
                   const std::function<void(World &)> &fatal)
{
	simk::reset();
	simk::Kernel &k = simk::K();
	k.malloc_fill = sc.malloc_fill;
	if (!sc.cred.empty()) k.add_file("/cred.json", sc.cred);
	World w(sc, opt);
	w.fatal = fatal;
	if (setup) setup(w);
	k.on_idle = [&]() { return w.on_idle(); };
	if (sc.order_seed != 0) {
		int seed = sc.order_seed;
		k.pick = [seed, &w](std::vector<int> &ready) {
			auto key = [&](int fd) { uint64_t h = (uint64_t)fd * 0x9E3779B97F4A7C15ull + (uint64_t)seed * 0xC2B2AE3D27D4EB4Full + (uint64_t)w.step_no * 0x165667B19E3779F9ull; h ^= h >> 29; h *= 0xBF58476D1CE4E5B9ull; h ^= h >> 32; return h; };
			std::stable_sort(ready.begin(), ready.end(), [&](int a, int b) { return key(a) < key(b); });
		};
	}
	std::vector<std::string> args = {"cjet", "-f"};
	if (!sc.cred.empty()) { args.push_back("-p"); args.push_back("/cred.json"); }
	std::vector<char *> argv;
	for (auto &a : args) argv.push_back((char *)a.c_str());
	argv.push_back(nullptr);
	optind = 1;
	go_ahead = 1;
	int rc = cjet_main((int)args.size(), argv.data());
	w.after_main(rc);
	Verdict vd = w.vd;
	k.on_idle = nullptr; k.pick = nullptr;
	return vd;
}

} // namespace inproc
