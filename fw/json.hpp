// Minimal strict RFC 8259 JSON for the harness (independent of cJSON).
// Objects keep member order and duplicates; numbers keep their text and a double.
#pragma once
#include <cmath>
#include <cstdint>
#include <cstdio>
#include <cstdlib>
#include <cstring>
#include <memory>
#include <string>
#include <utility>
#include <vector>
#include <algorithm>

namespace js {

struct Value;
using Member = std::pair<std::string, Value>;

struct Value {
	enum Type { Null, Bool, Num, Str, Arr, Obj } t = Null;
	bool b = false;
	double d = 0;
	std::string s; // string value, or number text
	std::vector<Value> a;
	std::vector<Member> o;

	Value() {}
	static Value null() { return Value(); }
	static Value boolean(bool x) { Value v; v.t = Bool; v.b = x; return v; }
	static Value num(double x) {
		Value v; v.t = Num; v.d = x;
		char buf[40];
		if (std::floor(x) == x && std::fabs(x) < 1e15) snprintf(buf, sizeof buf, "%.0f", x);
		else snprintf(buf, sizeof buf, "%.17g", x);
		v.s = buf; return v;
	}
	static Value numtext(const std::string &txt) { Value v; v.t = Num; v.s = txt; v.d = strtod(txt.c_str(), nullptr); return v; }
	static Value str(const std::string &x) { Value v; v.t = Str; v.s = x; return v; }
	static Value arr() { Value v; v.t = Arr; return v; }
	static Value obj() { Value v; v.t = Obj; return v; }

	bool is_null() const { return t == Null; }
	bool is_bool() const { return t == Bool; }
	bool is_num() const { return t == Num; }
	bool is_str() const { return t == Str; }
	bool is_arr() const { return t == Arr; }
	bool is_obj() const { return t == Obj; }

	const Value *get(const std::string &k) const {
		if (t != Obj) return nullptr;
		for (auto &m : o) if (m.first == k) return &m.second;
		return nullptr;
	}
	Value &set(const std::string &k, Value v) { o.emplace_back(k, std::move(v)); return *this; }
	Value &push(Value v) { a.push_back(std::move(v)); return *this; }
	bool has(const std::string &k) const { return get(k) != nullptr; }
	size_t count(const std::string &k) const { size_t n = 0; for (auto &m : o) if (m.first == k) n++; return n; }
};

inline void append_utf8(std::string &out, uint32_t cp)
{
	if (cp < 0x80) out += (char)cp;
	else if (cp < 0x800) { out += (char)(0xC0 | (cp >> 6)); out += (char)(0x80 | (cp & 0x3F)); }
	else if (cp < 0x10000) { out += (char)(0xE0 | (cp >> 12)); out += (char)(0x80 | ((cp >> 6) & 0x3F)); out += (char)(0x80 | (cp & 0x3F)); }
	else { out += (char)(0xF0 | (cp >> 18)); out += (char)(0x80 | ((cp >> 12) & 0x3F)); out += (char)(0x80 | ((cp >> 6) & 0x3F)); out += (char)(0x80 | (cp & 0x3F)); }
}

struct Parser {
	const char *p, *e;
	std::string err;
	int depth = 0;
	Parser(const char *b, size_t n) : p(b), e(b + n) {}
	void ws() { while (p < e && (*p == ' ' || *p == '\t' || *p == '\n' || *p == '\r')) p++; }
	bool fail(const char *m) { if (err.empty()) err = m; return false; }
	bool lit(const char *w) { size_t n = strlen(w); if ((size_t)(e - p) >= n && memcmp(p, w, n) == 0) { p += n; return true; } return false; }
	static int hex(char c) { if (c >= '0' && c <= '9') return c - '0'; if (c >= 'a' && c <= 'f') return c - 'a' + 10; if (c >= 'A' && c <= 'F') return c - 'A' + 10; return -1; }
	bool hex4(uint32_t &out) { if (e - p < 4) return false; out = 0; for (int i = 0; i < 4; i++) { int h = hex(p[i]); if (h < 0) return false; out = out * 16 + h; } p += 4; return true; }
	bool string(std::string &out)
	{
		if (p >= e || *p != '"') return fail("expected string");
		p++;
		while (p < e) {
			unsigned char c = *p;
			if (c == '"') { p++; return true; }
			if (c < 0x20) return fail("control char in string");
			if (c == '\\') {
				p++;
				if (p >= e) return fail("eof in escape");
				char x = *p++;
				switch (x) {
				case '"': out += '"'; break; case '\\': out += '\\'; break; case '/': out += '/'; break;
				case 'b': out += '\b'; break; case 'f': out += '\f'; break; case 'n': out += '\n'; break;
				case 'r': out += '\r'; break; case 't': out += '\t'; break;
				case 'u': {
					uint32_t cp;
					if (!hex4(cp)) return fail("bad \\u");
					if (cp >= 0xD800 && cp <= 0xDBFF) {
						if (e - p >= 6 && p[0] == '\\' && p[1] == 'u') {
							p += 2; uint32_t lo;
							if (!hex4(lo)) return fail("bad \\u");
							if (lo < 0xDC00 || lo > 0xDFFF) return fail("bad surrogate");
							cp = 0x10000 + ((cp - 0xD800) << 10) + (lo - 0xDC00);
						} else return fail("lone surrogate");
					} else if (cp >= 0xDC00 && cp <= 0xDFFF) return fail("lone surrogate");
					append_utf8(out, cp);
					break;
				}
				default: return fail("bad escape");
				}
			} else { out += (char)c; p++; }
		}
		return fail("eof in string");
	}
	bool number(Value &v)
	{
		const char *s = p;
		if (p < e && *p == '-') p++;
		if (p >= e) return fail("bad number");
		if (*p == '0') p++;
		else if (*p >= '1' && *p <= '9') { while (p < e && *p >= '0' && *p <= '9') p++; }
		else return fail("bad number");
		if (p < e && *p == '.') { p++; if (p >= e || *p < '0' || *p > '9') return fail("bad frac"); while (p < e && *p >= '0' && *p <= '9') p++; }
		if (p < e && (*p == 'e' || *p == 'E')) { p++; if (p < e && (*p == '+' || *p == '-')) p++; if (p >= e || *p < '0' || *p > '9') return fail("bad exp"); while (p < e && *p >= '0' && *p <= '9') p++; }
		v = Value::numtext(std::string(s, p));
		return true;
	}
	bool value(Value &v)
	{
		if (++depth > 200) return fail("too deep");
		ws();
		if (p >= e) return fail("eof");
		bool ok = true;
		switch (*p) {
		case 'n': ok = lit("null") || fail("bad literal"); v = Value::null(); break;
		case 't': ok = lit("true") || fail("bad literal"); v = Value::boolean(true); break;
		case 'f': ok = lit("false") || fail("bad literal"); v = Value::boolean(false); break;
		case '"': v = Value::str(""); ok = string(v.s); break;
		case '[': {
			p++; v = Value::arr(); ws();
			if (p < e && *p == ']') { p++; break; }
			for (;;) {
				Value x; if (!value(x)) { ok = false; break; }
				v.a.push_back(std::move(x)); ws();
				if (p < e && *p == ',') { p++; continue; }
				if (p < e && *p == ']') { p++; break; }
				ok = fail("expected , or ]"); break;
			}
			break;
		}
		case '{': {
			p++; v = Value::obj(); ws();
			if (p < e && *p == '}') { p++; break; }
			for (;;) {
				ws(); std::string k; if (!string(k)) { ok = false; break; }
				ws(); if (p >= e || *p != ':') { ok = fail("expected :"); break; } p++;
				Value x; if (!value(x)) { ok = false; break; }
				v.o.emplace_back(std::move(k), std::move(x)); ws();
				if (p < e && *p == ',') { p++; continue; }
				if (p < e && *p == '}') { p++; break; }
				ok = fail("expected , or }"); break;
			}
			break;
		}
		default: ok = number(v);
		}
		depth--;
		return ok;
	}
};

// Parses exactly one JSON text occupying the whole input (surrounding whitespace allowed).
inline bool parse(const std::string &txt, Value &out, std::string *err = nullptr)
{
	Parser ps(txt.data(), txt.size());
	if (!ps.value(out)) { if (err) *err = ps.err; return false; }
	ps.ws();
	if (ps.p != ps.e) { if (err) *err = "trailing bytes"; return false; }
	return true;
}

inline void dump_str(const std::string &s, std::string &out)
{
	out += '"';
	for (unsigned char c : s) {
		switch (c) {
		case '"': out += "\\\""; break; case '\\': out += "\\\\"; break;
		case '\n': out += "\\n"; break; case '\r': out += "\\r"; break; case '\t': out += "\\t"; break;
		case '\b': out += "\\b"; break; case '\f': out += "\\f"; break;
		default:
			if (c < 0x20) { char b[8]; snprintf(b, sizeof b, "\\u%04x", c); out += b; }
			else out += (char)c;
		}
	}
	out += '"';
}

inline void dump(const Value &v, std::string &out)
{
	switch (v.t) {
	case Value::Null: out += "null"; break;
	case Value::Bool: out += v.b ? "true" : "false"; break;
	case Value::Num: out += v.s; break;
	case Value::Str: dump_str(v.s, out); break;
	case Value::Arr: out += '['; for (size_t i = 0; i < v.a.size(); i++) { if (i) out += ','; dump(v.a[i], out); } out += ']'; break;
	case Value::Obj: out += '{'; for (size_t i = 0; i < v.o.size(); i++) { if (i) out += ','; dump_str(v.o[i].first, out); out += ':'; dump(v.o[i].second, out); } out += '}'; break;
	}
}
inline std::string dump(const Value &v) { std::string s; dump(v, s); return s; }

inline bool num_eq(double a, double b)
{
	if (a == b) return true;
	double m = std::max(std::fabs(a), std::fabs(b));
	return std::fabs(a - b) <= 1e-12 * m; // cJSON prints doubles with 15..17 significant digits
}

// Semantic equality: numbers by value, objects as multisets of members (order-insensitive).
inline bool equal(const Value &x, const Value &y)
{
	if (x.t != y.t) return false;
	switch (x.t) {
	case Value::Null: return true;
	case Value::Bool: return x.b == y.b;
	case Value::Num: return num_eq(x.d, y.d);
	case Value::Str: return x.s == y.s;
	case Value::Arr:
		if (x.a.size() != y.a.size()) return false;
		for (size_t i = 0; i < x.a.size(); i++) if (!equal(x.a[i], y.a[i])) return false;
		return true;
	case Value::Obj: {
		if (x.o.size() != y.o.size()) return false;
		std::vector<bool> used(y.o.size(), false);
		for (auto &m : x.o) {
			bool found = false;
			for (size_t j = 0; j < y.o.size(); j++) {
				if (!used[j] && y.o[j].first == m.first && equal(m.second, y.o[j].second)) { used[j] = true; found = true; break; }
			}
			if (!found) return false;
		}
		return true;
	}
	}
	return false;
}

} // namespace js
