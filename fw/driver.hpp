// Fork-per-case execution, verdict transport, crash signatures, campaign bookkeeping, rapidcheck glue.
#pragma once
#include "world.hpp"

#include <chrono>
#include <csignal>
#include <cstdio>
#include <cstdlib>
#include <fcntl.h>
#include <fstream>
#include <functional>
#include <poll.h>
#include <sstream>
#include <sys/personality.h>
#include <sys/stat.h>
#include <sys/wait.h>
#include <unistd.h>
#include <unordered_set>

namespace drv {
using world::RunOpts;
using world::Verdict;
using world::Violation;
using world::World;
using scen::Scenario;

inline js::Value verdict_to_json(const Verdict &vd)
{
	js::Value o = js::Value::obj();
	js::Value v = js::Value::arr();
	for (auto &x : vd.v) { js::Value e = js::Value::obj(); e.set("rule", js::Value::str(x.rule)); e.set("detail", js::Value::str(x.detail)); v.push(e); }
	o.set("v", v);
	js::Value l = js::Value::arr(); for (auto &s : vd.labels) l.push(js::Value::str(s)); o.set("labels", l);
	js::Value st = js::Value::obj(); for (auto &s : vd.stat) st.set(s.first, js::Value::num((double)s.second)); o.set("stat", st);
	o.set("completed", js::Value::boolean(vd.completed));
	js::Value tr = js::Value::arr(); for (auto &t : vd.transcripts) tr.push(js::Value::str(scen::tohex(t))); o.set("tr", tr);
	return o;
}
inline bool verdict_from_json(const js::Value &o, Verdict &vd)
{
	if (!o.is_obj()) return false;
	if (auto *v = o.get("v")) for (auto &e : v->a) vd.v.push_back({e.get("rule")->s, e.get("detail")->s});
	if (auto *l = o.get("labels")) for (auto &s : l->a) vd.labels.insert(s.s);
	if (auto *s = o.get("stat")) for (auto &m : s->o) vd.stat[m.first] = (long)m.second.d;
	if (auto *c = o.get("completed")) vd.completed = c->b;
	if (auto *t = o.get("tr")) for (auto &x : t->a) vd.transcripts.push_back(scen::fromhex(x.s));
	return true;
}

struct CaseResult {
	Verdict vd;
	bool crashed = false;     // abnormal termination of the child (sanitizer, signal, abort)
	bool timed_out = false;
	int status = 0;
	std::string crash_sig;    // e.g. asan:heap-use-after-free@websocket_close
	std::string stderr_text;
};

// sanitizer report -> signature "kind@innermost cjet function"
inline std::string crash_signature(const std::string &err, int status)
{
	std::string kind;
	size_t p = err.find("ERROR: AddressSanitizer: ");
	if (p != std::string::npos) {
		size_t s = p + strlen("ERROR: AddressSanitizer: ");
		size_t e = err.find_first_of(" \n", s);
		kind = "asan:" + err.substr(s, e - s);
	} else if ((p = err.find("runtime error: ")) != std::string::npos) {
		size_t s = p + strlen("runtime error: ");
		size_t e = err.find('\n', s);
		std::string msg = err.substr(s, e - s);
		// strip numbers/addresses so that the signature is stable
		std::string t;
		for (char c : msg) { if ((c >= '0' && c <= '9')) { if (t.empty() || t.back() != '#') t += '#'; } else t += c; }
		if (t.size() > 60) t.resize(60);
		kind = "ubsan:" + t;
	} else if (err.find("LeakSanitizer") != std::string::npos) kind = "lsan:leak";
	else if (WIFSIGNALED(status)) kind = "signal:" + std::to_string(WTERMSIG(status));
	else kind = "exit:" + std::to_string(WIFEXITED(status) ? WEXITSTATUS(status) : -1);
	std::string func = "?";
	size_t pos = p == std::string::npos ? 0 : p;
	// first frame whose file lies in the repository's src tree
	while ((pos = err.find("\n    #", pos)) != std::string::npos) {
		size_t eol = err.find('\n', pos + 1);
		std::string line = err.substr(pos + 1, eol - pos - 1);
		pos = eol == std::string::npos ? err.size() : eol;
		size_t in = line.find(" in ");
		if (in == std::string::npos) continue;
		size_t fs = in + 4, fe = line.find(' ', fs);
		std::string fn = line.substr(fs, fe - fs);
		std::string rest = fe == std::string::npos ? "" : line.substr(fe);
		if (rest.find("/src/") != std::string::npos && rest.find("/verif/") == std::string::npos) { func = fn; break; }
		if (eol == std::string::npos) break;
	}
	return kind + "@" + func;
}

// Turn "pcs:addr,addr,..." (recorded by a child at an injected allocation failure) into "f1<-f2<-f3": the innermost
// frames that are neither allocator wrappers nor the simulated kernel.
inline std::string symbolize_site(const std::string &raw)
{
	// symbol table of this very binary (children are forks of it, ASLR is off): nm once, binary search afterwards
	static std::vector<std::pair<unsigned long, std::string>> syms;
	static unsigned long base = 0;
	static std::map<std::string, std::string> cache;
	if (!base) {
		char exe[4096]; ssize_t el = readlink("/proc/self/exe", exe, sizeof exe - 1); exe[el > 0 ? el : 0] = 0;
		std::ifstream maps("/proc/self/maps"); std::string line;
		while (std::getline(maps, line)) if (line.find(exe) != std::string::npos) { base = strtoul(line.c_str(), nullptr, 16); break; }
		if (!base) base = 1;
		std::string cmd = "nm --defined-only -n /proc/" + std::to_string(getpid()) + "/exe 2>/dev/null";
		FILE *f = popen(cmd.c_str(), "r");
		char l[2048];
		if (f) { while (fgets(l, sizeof l, f)) { unsigned long a; char t; char name[1500]; if (sscanf(l, "%lx %c %1499s", &a, &t, name) == 3 && (t == 't' || t == 'T' || t == 'w' || t == 'W')) syms.emplace_back(a, name); } pclose(f); }
	}
	auto lookup = [&](unsigned long pc) -> std::string {
		unsigned long off = pc - base - 1;
		size_t lo = 0, hi = syms.size();
		while (lo + 1 < hi) { size_t mid = (lo + hi) / 2; if (syms[mid].first <= off) lo = mid; else hi = mid; }
		if (syms.empty() || syms[lo].first > off) return "?";
		return syms[lo].second;
	};
	std::string out;
	size_t pos = 0;
	while (pos < raw.size()) {
		size_t plus = raw.find(" + ", pos);
		std::string part = raw.substr(pos, plus == std::string::npos ? std::string::npos : plus - pos);
		pos = plus == std::string::npos ? raw.size() : plus + 3;
		if (part.compare(0, 4, "pcs:") != 0) { out += (out.empty() ? "" : " + ") + part; continue; }
		std::vector<std::string> addrs; std::stringstream ss(part.substr(4)); std::string a;
		while (std::getline(ss, a, ',')) addrs.push_back(a);
		for (auto &x : addrs) if (!cache.count(x)) cache[x] = lookup(strtoul(x.c_str(), nullptr, 16));
		std::string site; int kept = 0;
		for (auto &x : addrs) {
			const std::string &f = cache[x];
			if (kept >= 3) break;
			if (f.empty() || f == "?" || f.compare(0, 5, "simk_") == 0 || f.find("note_alloc_failure") != std::string::npos || f == "cjet_malloc" || f == "cjet_calloc" || f.find("backtrace") != std::string::npos || f.find("alloc_should_fail") != std::string::npos) continue;
			site += (site.empty() ? "" : "<-") + f; kept++;
		}
		out += (out.empty() ? "" : " + ") + site;
	}
	return out;
}

using Setup = std::function<void(World &)>;

inline CaseResult run_case(const Scenario &sc, const RunOpts &opt, const Setup &setup = {}, int timeout_s = 30)
{
	CaseResult res;
	int vp[2], ep[2];
	if (pipe(vp) || pipe(ep)) { perror("pipe"); exit(2); }
	fflush(stdout); fflush(stderr);
	pid_t pid = fork();
	if (pid < 0) { perror("fork"); exit(2); }
	if (pid == 0) {
		close(vp[0]); close(ep[0]);
		dup2(ep[1], 2); close(ep[1]);
		alarm((unsigned)timeout_s + 5);
		simk::reset();
		simk::Kernel &k = simk::K();
		k.malloc_fill = sc.malloc_fill;
		if (!sc.cred.empty()) k.add_file("/cred.json", sc.cred);
		World w(sc, opt);
		auto report = [&](World &ww) {
			std::string out = js::dump(verdict_to_json(ww.vd));
			size_t off = 0;
			while (off < out.size()) { ssize_t n = write(vp[1], out.data() + off, out.size() - off); if (n <= 0) break; off += (size_t)n; }
			_exit(0);
		};
		w.fatal = report;
		if (setup) setup(w);
		k.on_idle = [&]() { return w.on_idle(); };
		if (sc.order_seed != 0) {
			int seed = sc.order_seed;
			k.pick = [seed, &w](std::vector<int> &ready) {
				auto key = [&](int fd) { uint64_t h = (uint64_t)fd * 0x9E3779B97F4A7C15ull + (uint64_t)seed * 0xC2B2AE3D27D4EB4Full + (uint64_t)w.step_no * 0x165667B19E3779F9ull; h ^= h >> 29; h *= 0xBF58476D1CE4E5B9ull; h ^= h >> 32; return h; };
				std::stable_sort(ready.begin(), ready.end(), [&](int a, int b) { return key(a) < key(b); });
			};
		}
		std::vector<std::string> args = {"cjet", "-f"};
		if (!sc.cred.empty()) { args.push_back("-p"); args.push_back("/cred.json"); }
		if (sc.local_flag) args.push_back("-l");
		std::vector<char *> argv;
		for (auto &a : args) argv.push_back((char *)a.c_str());
		argv.push_back(nullptr);
		optind = 1;
		int rc = cjet_main((int)args.size(), argv.data());
		w.after_main(rc);
		report(w);
	}
	close(vp[1]); close(ep[1]);
	std::string vtxt;
	struct pollfd pf[2] = {{vp[0], POLLIN, 0}, {ep[0], POLLIN, 0}};
	bool open0 = true, open1 = true;
	auto t0 = std::chrono::steady_clock::now();
	char buf[65536];
	while (open0 || open1) {
		pf[0].fd = open0 ? vp[0] : -1; pf[1].fd = open1 ? ep[0] : -1;
		int r = poll(pf, 2, 1000);
		if (r < 0 && errno != EINTR) break;
		if (open0 && (pf[0].revents & (POLLIN | POLLHUP))) { ssize_t n = read(vp[0], buf, sizeof buf); if (n <= 0) open0 = false; else vtxt.append(buf, (size_t)n); }
		if (open1 && (pf[1].revents & (POLLIN | POLLHUP))) { ssize_t n = read(ep[0], buf, sizeof buf); if (n <= 0) open1 = false; else if (res.stderr_text.size() < (1u << 20)) res.stderr_text.append(buf, (size_t)n); }
		if (std::chrono::steady_clock::now() - t0 > std::chrono::seconds(timeout_s)) { kill(pid, SIGKILL); res.timed_out = true; break; }
	}
	close(vp[0]); close(ep[0]);
	int status = 0;
	waitpid(pid, &status, 0);
	res.status = status;
	js::Value v;
	bool have = !vtxt.empty() && js::parse(vtxt, v) && verdict_from_json(v, res.vd);
	if (res.timed_out) return res;
	if (!have || !WIFEXITED(status) || WEXITSTATUS(status) != 0) {
		res.crashed = true;
		res.crash_sig = crash_signature(res.stderr_text, status);
	}
	return res;
}

// --------------------------------------------------------------------------------------------
struct Known { std::string property, signature, what; };

inline std::vector<Known> load_known(const std::string &path, const std::string &prop)
{
	std::vector<Known> v;
	std::ifstream f(path);
	std::string line;
	while (std::getline(f, line)) {
		if (line.empty() || line[0] != '{') continue; // "fixed:" lines and comments suppress nothing
		js::Value o;
		if (!js::parse(line, o)) continue;
		auto *p = o.get("property"); auto *s = o.get("signature"); auto *st = o.get("status");
		if (!p || !s || p->s != prop) continue;
		if (st && st->s != "open") continue;
		Known k; k.property = p->s; k.signature = s->s; if (auto *w = o.get("what")) k.what = w->s;
		v.push_back(k);
	}
	return v;
}

struct Failure { std::string signature, detail; };

struct Campaign {
	std::string prop;
	RunOpts opt;
	Setup setup;
	std::function<bool(const Verdict &, const Scenario &)> nontrivial = [](const Verdict &, const Scenario &) { return true; };
	// which rule ids of the verdict count as violations of this property (prefix match)
	std::vector<std::string> rules;
	bool crashes_count = true;
	bool noshrink = false;
	std::vector<std::pair<std::string, std::string>> alias; // rule prefix -> name under which this property reports it
	std::string aliased(const std::string &r) const { for (auto &a : alias) if (r.compare(0, a.first.size(), a.first) == 0) return a.second; return r; }
	std::vector<Known> known;
	// bookkeeping
	long evaluations = 0, timeouts = 0, inconclusive = 0;
	std::unordered_set<uint64_t> nontrivial_hashes;
	std::map<std::string, long> labels, stat_sum, known_hits;
	std::vector<js::Value> samples;
	size_t max_samples = 4;
	Scenario last_failing; Failure last_failure; bool have_failing = false;
	// property specific relation over further executions (differential / metamorphic oracles)
	std::function<std::vector<Failure>(Campaign &, const Scenario &, const CaseResult &)> extra;

	bool rule_relevant(const std::string &r) const
	{
		for (auto &p : rules) if (r.compare(0, p.size(), p) == 0) return true;
		return false;
	}
	bool is_known(const std::string &sig, std::string *which = nullptr) const
	{
		for (auto &k : known) {
			// "a && b": every part must occur in the failure's signature
			bool all = true; size_t pos = 0;
			while (all) {
				size_t e = k.signature.find(" && ", pos);
				std::string part = k.signature.substr(pos, e == std::string::npos ? std::string::npos : e - pos);
				if (sig.find(part) == std::string::npos) all = false;
				if (e == std::string::npos) break;
				pos = e + 4;
			}
			if (all) { if (which) *which = k.signature; return true; }
		}
		return false;
	}

	// Returns the failures (unsuppressed) of one execution.
	std::vector<Failure> evaluate(const Scenario &sc, bool record = true)
	{
		CaseResult r = run_case(sc, opt, setup);
		std::vector<Failure> out;
		if (record) evaluations++;
		if (getenv("VERIF_TRACE")) fputs(r.stderr_text.c_str(), stderr);
		if (r.timed_out) { if (record) timeouts++; return out; }
		std::string which;
		// an injected allocation failure is identified by its call site, so that distinct root causes stay distinct
		std::string site;
		for (auto &t : r.vd.transcripts) if (t.compare(0, 10, "ALLOCSITE ") == 0) site = " @alloc " + symbolize_site(t.substr(10));
		if (site.empty()) { std::string all; size_t p = 0; while ((p = r.stderr_text.find("ALLOC-FAIL-SITE ", p)) != std::string::npos) { size_t e = r.stderr_text.find('\n', p); all += (all.empty() ? "" : " + ") + r.stderr_text.substr(p + 16, e - p - 16); p = e == std::string::npos ? r.stderr_text.size() : e; } if (!all.empty()) site = " @alloc " + symbolize_site(all); }
		if (r.crashed) {
			if (crashes_count) {
				if (is_known(r.crash_sig + site, &which)) { if (record) known_hits[which]++; }
				else out.push_back({r.crash_sig + site, r.stderr_text.substr(0, 6000)});
			}
		}
		for (auto &v : r.vd.v) {
			if (v.rule.compare(0, 13, "inconclusive/") == 0) { if (record) inconclusive++; continue; }
			if (!rule_relevant(v.rule)) { if (record) stat_sum["other_rule:" + v.rule]++; continue; }
			std::string sig = aliased(v.rule) + site + " | " + v.detail;
			if (is_known(sig, &which)) { if (record) known_hits[which]++; continue; }
			bool dup = false; for (auto &o : out) if (o.signature == aliased(v.rule) + site) dup = true;
			if (!dup) out.push_back({aliased(v.rule) + site, v.detail});
		}
		if (record) {
			for (auto &l : r.vd.labels) labels[l]++;
			for (auto &s : r.vd.stat) stat_sum[s.first] += s.second;
			if (!r.crashed && nontrivial(r.vd, sc)) {
				uint64_t h = scen::hash(sc);
				if (nontrivial_hashes.insert(h).second && samples.size() < max_samples && (nontrivial_hashes.size() % 97 == 1 || samples.empty())) samples.push_back(scen::to_json(sc));
			}
		}
		if (extra && out.empty() && !r.crashed) {
			for (auto &f : extra(*this, sc, r)) {
				std::string sig = f.signature + " | " + f.detail;
				if (is_known(sig, &which)) { if (record) known_hits[which]++; continue; }
				out.push_back(f);
			}
		}
		if (!out.empty()) { last_failing = sc; last_failure = out[0]; have_failing = true; }
		return out;
	}
};

inline void write_file(const std::string &path, const std::string &content)
{
	std::ofstream f(path, std::ios::binary | std::ios::trunc);
	f << content;
}
inline std::string read_file(const std::string &path)
{
	std::ifstream f(path, std::ios::binary);
	std::stringstream ss; ss << f.rdbuf();
	return ss.str();
}

// Re-exec once with the sanitizer options this harness relies on (they are read at process start).
inline void ensure_env(int argc, char **argv)
{
	(void)argc;
	if (getenv("VERIF_REEXEC")) return;
	setenv("VERIF_REEXEC", "1", 1);
	setenv("ASAN_OPTIONS", "detect_leaks=0:abort_on_error=0:exitcode=77:allocator_may_return_null=1:detect_stack_use_after_return=0:handle_abort=1:symbolize=1:external_symbolizer_path=/usr/bin/llvm-symbolizer-14", 1);
	setenv("UBSAN_OPTIONS", "print_stacktrace=1:halt_on_error=1:exitcode=78:external_symbolizer_path=/usr/bin/llvm-symbolizer-14", 1);
	personality(ADDR_NO_RANDOMIZE);
	execv("/proc/self/exe", argv);
	perror("execv");
}

inline std::string verif_root() { const char *r = getenv("VERIF_ROOT"); return r && *r ? r : "/verif"; }
struct Args {
	std::string replay, out, variant = "default", known_file = verif_root() + "/KNOWN_FINDINGS.jsonl", replay_dir = verif_root() + "/replays";
	long cases = 1000; int size = 100; unsigned long seed = 1; std::string mode; bool verbose = false;
};
inline Args parse_args(int argc, char **argv)
{
	Args a;
	for (int i = 1; i < argc; i++) {
		std::string s = argv[i];
		auto next = [&]() { return i + 1 < argc ? std::string(argv[++i]) : std::string(); };
		if (s == "--replay") a.replay = next();
		else if (s == "--out") a.out = next();
		else if (s == "--variant") a.variant = next();
		else if (s == "--cases") a.cases = atol(next().c_str());
		else if (s == "--size") a.size = atoi(next().c_str());
		else if (s == "--seed") a.seed = strtoul(next().c_str(), nullptr, 10);
		else if (s == "--known") a.known_file = next();
		else if (s == "--replay-dir") a.replay_dir = next();
		else if (s == "--mode") a.mode = next();
		else if (s == "-v") a.verbose = true;
	}
	return a;
}

inline js::Value campaign_json(const Campaign &c, double wall, const std::vector<js::Value> &violations)
{
	js::Value o = js::Value::obj();
	o.set("property", js::Value::str(c.prop));
	o.set("evaluations", js::Value::num((double)c.evaluations));
	o.set("timeouts", js::Value::num((double)c.timeouts));
	o.set("inconclusive", js::Value::num((double)c.inconclusive));
	js::Value h = js::Value::arr();
	for (auto x : c.nontrivial_hashes) { char b[20]; snprintf(b, sizeof b, "%016llx", (unsigned long long)x); h.push(js::Value::str(b)); }
	o.set("nontrivial_hashes", h);
	js::Value l = js::Value::obj(); for (auto &x : c.labels) l.set(x.first, js::Value::num((double)x.second)); o.set("labels", l);
	js::Value s = js::Value::obj(); for (auto &x : c.stat_sum) s.set(x.first, js::Value::num((double)x.second)); o.set("stat", s);
	js::Value k = js::Value::obj(); for (auto &x : c.known_hits) k.set(x.first, js::Value::num((double)x.second)); o.set("known_hits", k);
	js::Value sm = js::Value::arr(); for (auto &x : c.samples) sm.push(x); o.set("samples", sm);
	js::Value vs = js::Value::arr(); for (auto &x : violations) vs.push(x); o.set("violations", vs);
	o.set("wall_s", js::Value::num(wall));
	return o;
}

} // namespace drv
