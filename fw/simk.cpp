#include "simk.hpp"

#include <algorithm>
#include <arpa/inet.h>
#include <cerrno>
#include <csignal>
#include <cstdarg>
#include <cstdio>
#include <cstdlib>
#include <cstring>
#include <execinfo.h>
#include <fcntl.h>
#include <netinet/in.h>
#include <sys/epoll.h>
#include <sys/mman.h>
#include <sys/socket.h>
#include <sys/stat.h>
#include <sys/timerfd.h>
#include <sys/uio.h>
#include <sys/un.h>
#include <unistd.h>
#include <unordered_map>

extern "C" void __sanitizer_symbolize_pc(void *pc, const char *fmt, char *out_buf, size_t out_buf_size);

namespace simk {

struct Block { size_t size; long idx; };
static std::unordered_map<void *, Block> *g_live; // heap-allocated so it survives static destruction order
static Kernel *g_k;

Kernel &K()
{
	if (!g_k) { g_k = new Kernel(); g_live = new std::unordered_map<void *, Block>(); }
	return *g_k;
}

void reset()
{
	if (g_k) { delete g_k; g_k = nullptr; }
	if (g_live) { delete g_live; g_live = nullptr; }
	K();
	// descriptors 0..2 are stdio and never handed out
	K().fds.resize(3);
}

void Kernel::snap(const std::string &call)
{
	// durable image of the watched path after this file-system call
	auto it = file_by_path.find(watch_path);
	FileSnap s; s.call = call; s.present = it != file_by_path.end();
	if (s.present) s.content = file_content[it->second];
	if (file_snaps.size() < 10000) file_snaps.push_back(s);
}

void Kernel::hyg(const std::string &s) { if (hygiene.size() < 50) hygiene.push_back(s); }

static Fd *getfd(int fd)
{
	Kernel &k = K();
	if (fd < 0 || (size_t)fd >= k.fds.size()) return nullptr;
	if (k.fds[fd].kind == K_NONE) return nullptr;
	return &k.fds[fd];
}

static int newfd(int kind)
{
	Kernel &k = K();
	if (k.fds.size() < 3) k.fds.resize(3);
	Fd f; f.kind = kind; f.open = true;
	k.fds.push_back(f);
	return (int)k.fds.size() - 1;
}

// returns errno to inject for this invocation of `call`, or 0
static int fault(const char *call, long *arg = nullptr)
{
	Kernel &k = K();
	k.calls_this_iter++;
	{ size_t a = cjet_get_alloc_size(); if (a > k.max_accounted) k.max_accounted = a; }
	long n = k.call_count[call]++;
	for (auto &f : k.faults) {
		if (f.nth == n && f.call == call) { if (arg) *arg = f.arg; return f.err; }
	}
	return 0;
}

void Kernel::add_fault(const std::string &call, long nth, int err, long arg)
{
	// nth counts invocations from *now* on
	Fault f; f.call = call; f.nth = call_count[call] + nth; f.err = err; f.arg = arg;
	faults.push_back(f);
}

void Kernel::add_file(const std::string &path, const std::string &content)
{
	file_by_path[path] = (int)file_content.size();
	file_content.push_back(content);
}

int Kernel::listener_for(int ep) const
{
	for (size_t i = 0; i < fds.size(); i++)
		if (fds[i].kind == K_LISTEN && fds[i].open && fds[i].ep == ep) return (int)i;
	// -l mode has separate v4 listeners; otherwise fall back to the dual-stack one
	if (ep == EP_RAW4) return listener_for(EP_RAW);
	if (ep == EP_HTTP4) return listener_for(EP_HTTP);
	return -1;
}

static uint32_t current_mask(const Fd &f)
{
	Kernel &k = K();
	uint32_t m = 0;
	switch (f.kind) {
	case K_LISTEN: if (!f.backlog.empty()) m |= EPOLLIN; break;
	case K_TIMER: if (f.expirations > 0) m |= EPOLLIN; break;
	case K_CONN: {
		const Conn &c = k.conns[f.conn];
		if (!c.inbound.empty() || c.end_kind != END_NONE) m |= EPOLLIN;
		if (!c.blocked) m |= EPOLLOUT;
		if (c.end_kind == END_HUP) m |= EPOLLHUP;
		if (c.end_kind == END_RESET) m |= EPOLLHUP | EPOLLERR;
		break;
	}
	default: break;
	}
	return m & (f.evmask | EPOLLHUP | EPOLLERR);
}

void Kernel::mark_ready(int fd)
{
	Fd *f = getfd(fd);
	if (!f || !f->open || !f->registered) return;
	if (!f->in_ready) { f->in_ready = true; f->ready_seq = ++ready_seq; }
}

bool Kernel::anything_ready() const
{
	for (auto &f : fds) if (f.open && f.registered && f.in_ready && current_mask(f) != 0) return true;
	return false;
}

int Kernel::connect(int ep, int origin)
{
	Conn c; c.ep = ep; c.origin = origin;
	conns.push_back(c);
	int id = (int)conns.size() - 1;
	int l = listener_for(ep);
	if (l >= 0) { fds[l].backlog.push_back(id); mark_ready(l); }
	else conns[id].aborted_in_accept = true;
	return id;
}

void Kernel::send(int conn, const std::string &bytes)
{
	if (conn < 0 || (size_t)conn >= conns.size()) return;
	Conn &c = conns[conn];
	if (c.end_kind != END_NONE || c.daemon_closed) return;
	c.inbound += bytes;
	c.bytes_in += bytes.size();
	if (c.fd >= 0) mark_ready(c.fd);
}

void Kernel::end(int conn, int kind)
{
	if (conn < 0 || (size_t)conn >= conns.size()) return;
	Conn &c = conns[conn];
	if (c.end_kind != END_NONE) return;
	c.end_kind = kind;
	if (kind == END_RESET) c.inbound.clear();
	if (c.fd >= 0) mark_ready(c.fd);
}

void Kernel::drain(int conn)
{
	if (conn < 0 || (size_t)conn >= conns.size()) return;
	Conn &c = conns[conn];
	if (!c.blocked) return;
	c.blocked = false;
	if (c.fd >= 0) mark_ready(c.fd);
}

void Kernel::advance(uint64_t ns)
{
	now_ns += ns;
	for (size_t i = 0; i < fds.size(); i++) {
		Fd &f = fds[i];
		if (f.kind == K_TIMER && f.open && f.armed && f.deadline <= now_ns) {
			f.armed = false; f.expirations += 1;
			mark_ready((int)i);
		}
	}
}

size_t Kernel::open_fd_count() const { size_t n = 0; for (auto &f : fds) if (f.kind != K_NONE && f.open) n++; return n; }
std::vector<int> Kernel::open_fds() const { std::vector<int> v; for (size_t i = 0; i < fds.size(); i++) if (fds[i].kind != K_NONE && fds[i].open) v.push_back((int)i); return v; }
size_t Kernel::armed_timers() const { size_t n = 0; for (auto &f : fds) if (f.kind == K_TIMER && f.open && f.armed) n++; return n; }
size_t Kernel::live_blocks() const { return g_live ? g_live->size() : 0; }
size_t Kernel::live_bytes() const { size_t n = 0; if (g_live) for (auto &b : *g_live) n += b.second.size; return n; }
std::string Kernel::live_block_report(size_t max) const
{
	std::vector<std::pair<long, size_t>> v;
	if (g_live) for (auto &b : *g_live) v.push_back({b.second.idx, b.second.size});
	std::sort(v.begin(), v.end());
	std::string s;
	for (size_t i = 0; i < v.size() && i < max; i++) s += "alloc#" + std::to_string(v[i].first) + "(" + std::to_string(v[i].second) + "B) ";
	return s;
}

} // namespace simk

using namespace simk;

static std::string fdname(int fd) { return "fd" + std::to_string(fd); }

extern "C" {

// ---------------------------------------------------------------- allocator
static bool alloc_should_fail(long idx)
{
	Kernel &k = K();
	if (k.fail_alloc_at == idx) return true;
	for (long x : k.fail_alloc_set) if (x == idx) return true;
	return false;
}

static void note_alloc_failure()
{
	Kernel &k = K();
	k.alloc_failed_seen++;
	if (k.alloc_failed_seen <= 3) {
		// raw return addresses; the parent process turns them into function names (same image, ASLR off)
		void *pcs[14];
		int n = backtrace(pcs, 14);
		std::string site = "pcs:";
		char buf[32];
		for (int i = 0; i < n; i++) { snprintf(buf, sizeof buf, "%s%lx", i ? "," : "", (unsigned long)pcs[i]); site += buf; }
		k.failed_alloc_site += (k.failed_alloc_site.empty() ? "" : " + ") + site;
		fprintf(stderr, "ALLOC-FAIL-SITE %s\n", site.c_str());
	}
}

void *simk_malloc(size_t size)
{
	Kernel &k = K();
	long idx = k.alloc_calls++;
	if (alloc_should_fail(idx)) { note_alloc_failure(); errno = ENOMEM; return nullptr; }
	void *p = malloc(size ? size : 1);
	if (!p) return nullptr;
	memset(p, k.malloc_fill, size);
	(*g_live)[p] = Block{size, idx};
	return p;
}

void *simk_calloc(size_t n, size_t size)
{
	Kernel &k = K();
	long idx = k.alloc_calls++;
	if (alloc_should_fail(idx)) { note_alloc_failure(); errno = ENOMEM; return nullptr; }
	void *p = calloc(n ? n : 1, size ? size : 1);
	if (!p) return nullptr;
	(*g_live)[p] = Block{n * size, idx};
	return p;
}

void simk_free(void *p)
{
	if (!p) return;
	K();
	auto it = g_live->find(p);
	if (it != g_live->end()) g_live->erase(it);
	free(p);
}

void *simk_realloc(void *p, size_t size)
{
	Kernel &k = K();
	long idx = k.alloc_calls++;
	if (alloc_should_fail(idx)) { note_alloc_failure(); errno = ENOMEM; return nullptr; }
	size_t old = 0;
	if (p) { auto it = g_live->find(p); if (it != g_live->end()) { old = it->second.size; g_live->erase(it); } }
	void *q = realloc(p, size ? size : 1);
	if (!q) return nullptr;
	if (size > old) memset((char *)q + old, k.malloc_fill, size - old);
	(*g_live)[q] = Block{size, idx};
	return q;
}

// ---------------------------------------------------------------- random (replaces linux/random.c)
int init_random(void) { return 0; }
void close_random(void) {}
void cjet_get_random_bytes(void *bytes, size_t n)
{
	Kernel &k = K();
	uint8_t *b = (uint8_t *)bytes;
	for (size_t i = 0; i < n; i++) {
		k.rnd_state ^= k.rnd_state << 13; k.rnd_state ^= k.rnd_state >> 7; k.rnd_state ^= k.rnd_state << 17;
		b[i] = (uint8_t)(k.rnd_state >> 24);
	}
}

// ---------------------------------------------------------------- sockets
int simk_socket(int domain, int type, int protocol)
{
	(void)type; (void)protocol;
	int e = fault("socket");
	if (e) { errno = e; return -1; }
	int fd = newfd(K_SOCK);
	K().fds[fd].family = domain;
	return fd;
}

static Fd *need(int fd, const char *call, bool quiet_unknown = false)
{
	Fd *f = getfd(fd);
	if (!f) { if (!quiet_unknown) K().hyg(std::string(call) + " on descriptor never issued: " + fdname(fd)); errno = EBADF; return nullptr; }
	if (!f->open) { K().hyg(std::string(call) + " on closed descriptor " + fdname(fd)); errno = EBADF; return nullptr; }
	return f;
}

int simk_setsockopt(int fd, int level, int optname, const void *optval, socklen_t optlen)
{
	Fd *f = need(fd, "setsockopt");
	if (!f) return -1;
	int e = fault("setsockopt");
	if (e) { errno = e; return -1; }
	if (f->kind != K_SOCK && f->kind != K_LISTEN && f->kind != K_CONN) { K().hyg("setsockopt on non-socket " + fdname(fd)); errno = ENOTSOCK; return -1; }
	if (level == SOL_SOCKET && optname == SO_LINGER && optval && optlen >= (socklen_t)sizeof(struct linger)) {
		const struct linger *l = (const struct linger *)optval;
		f->linger = l->l_onoff != 0 && l->l_linger > 0;
	}
	return 0;
}

int simk_fcntl(int fd, int cmd, ...)
{
	va_list ap; va_start(ap, cmd);
	long arg = va_arg(ap, long);
	va_end(ap);
	Fd *f = need(fd, "fcntl");
	if (!f) return -1;
	int e = fault("fcntl");
	if (e) { errno = e; return -1; }
	if (cmd == F_GETFL) return O_RDWR | (f->nonblock ? O_NONBLOCK : 0);
	if (cmd == F_SETFL) { f->nonblock = (arg & O_NONBLOCK) != 0; return 0; }
	return 0;
}

int simk_bind(int fd, const struct sockaddr *addr, socklen_t len)
{
	(void)len;
	Fd *f = need(fd, "bind");
	if (!f) return -1;
	int e = fault("bind");
	if (e) { errno = e; return -1; }
	f->family = addr->sa_family;
	if (addr->sa_family == AF_INET6) f->port = ntohs(((const struct sockaddr_in6 *)addr)->sin6_port);
	else if (addr->sa_family == AF_INET) f->port = ntohs(((const struct sockaddr_in *)addr)->sin_port);
	if (f->family == AF_UNIX) f->ep = EP_UDS;
	else if (f->family == AF_INET6) f->ep = (f->port == 11123) ? EP_HTTP : EP_RAW;
	else f->ep = (f->port == 11123) ? EP_HTTP4 : EP_RAW4;
	return 0;
}

int simk_listen(int fd, int backlog)
{
	(void)backlog;
	Fd *f = need(fd, "listen");
	if (!f) return -1;
	int e = fault("listen");
	if (e) { errno = e; return -1; }
	f->kind = K_LISTEN;
	return 0;
}

static void fill_local_addr(const Fd &l, struct sockaddr *addr, socklen_t *len)
{
	struct sockaddr_storage ss; memset(&ss, 0, sizeof ss);
	socklen_t n;
	if (l.family == AF_INET6) { auto *a = (struct sockaddr_in6 *)&ss; a->sin6_family = AF_INET6; a->sin6_port = htons(l.port); n = sizeof *a; }
	else if (l.family == AF_INET) { auto *a = (struct sockaddr_in *)&ss; a->sin_family = AF_INET; a->sin_port = htons(l.port); a->sin_addr.s_addr = htonl(0x7f000001); n = sizeof *a; }
	else { auto *a = (struct sockaddr_un *)&ss; a->sun_family = AF_UNIX; n = sizeof(sa_family_t) + 1 + strlen("/var/run/jet.socket"); strcpy(a->sun_path + 1, "/var/run/jet.socket"); }
	if (addr && len) { memcpy(addr, &ss, std::min<socklen_t>(*len, n)); *len = n; }
}

static void fill_peer_addr(const Fd &l, int origin, struct sockaddr *addr, socklen_t *len)
{
	struct sockaddr_storage ss; memset(&ss, 0, sizeof ss);
	socklen_t n;
	static const uint8_t v4lo[16] = {0, 0, 0, 0, 0, 0, 0, 0, 0, 0, 0xff, 0xff, 0x7f, 0, 0, 1};
	static const uint8_t v6lo[16] = {0, 0, 0, 0, 0, 0, 0, 0, 0, 0, 0, 0, 0, 0, 0, 1};
	static const uint8_t v4rem[16] = {0, 0, 0, 0, 0, 0, 0, 0, 0, 0, 0xff, 0xff, 192, 168, 7, 9};
	static const uint8_t v6rem[16] = {0x20, 0x01, 0x0d, 0xb8, 0, 0, 0, 0, 0, 0, 0, 0, 0, 0, 0, 0x42};
	if (l.family == AF_INET6) {
		auto *a = (struct sockaddr_in6 *)&ss; a->sin6_family = AF_INET6; a->sin6_port = htons(40000);
		const uint8_t *src = origin == OR_V4MAPPED_LOOPBACK ? v4lo : origin == OR_V6_LOOPBACK ? v6lo : origin == OR_V4MAPPED_REMOTE ? v4rem : v6rem;
		memcpy(a->sin6_addr.s6_addr, src, 16); n = sizeof *a;
	} else if (l.family == AF_INET) {
		auto *a = (struct sockaddr_in *)&ss; a->sin_family = AF_INET; a->sin_port = htons(40000);
		a->sin_addr.s_addr = (origin == OR_V4MAPPED_REMOTE || origin == OR_V6_REMOTE) ? htonl(0xc0a80709) : htonl(0x7f000001); n = sizeof *a;
	} else {
		// unnamed client socket: the kernel reports only the family
		auto *a = (struct sockaddr_un *)&ss; a->sun_family = AF_UNIX; n = sizeof(sa_family_t);
	}
	if (addr && len) { memcpy(addr, &ss, std::min<socklen_t>(*len, n)); *len = n; }
}

int simk_accept(int fd, struct sockaddr *addr, socklen_t *len)
{
	Kernel &k = K();
	Fd *f = need(fd, "accept");
	if (!f) return -1;
	if (f->kind != K_LISTEN) { k.hyg("accept on non-listening " + fdname(fd)); errno = EINVAL; return -1; }
	if (!f->nonblock) k.hyg("accept on blocking listener " + fdname(fd));
	if (f->backlog.empty()) { k.calls_this_iter++; errno = EAGAIN; return -1; }
	int e = fault("accept");
	if (e) {
		if (e == ECONNABORTED || e == EPROTO || e == ECONNRESET) { // the connection is gone for good
			int id = f->backlog.front(); f->backlog.pop_front();
			k.conns[id].aborted_in_accept = true; k.conns[id].daemon_closed = true;
		}
		errno = e; return -1;
	}
	int id = f->backlog.front(); f->backlog.pop_front();
	Fd lcopy = *f; // newfd may reallocate
	int nfd = newfd(K_CONN);
	Fd &n = k.fds[nfd];
	n.conn = id; n.family = lcopy.family; n.port = lcopy.port; n.ep = lcopy.ep; n.linger = lcopy.linger; // (accepted sockets inherit the option)
	k.conns[id].fd = nfd; k.conns[id].accepted = true;
	fill_peer_addr(lcopy, k.conns[id].origin, addr, len);
	return nfd;
}

int simk_getsockname(int fd, struct sockaddr *addr, socklen_t *len)
{
	Fd *f = need(fd, "getsockname");
	if (!f) return -1;
	int e = fault("getsockname");
	if (e) { errno = e; return -1; }
	fill_local_addr(*f, addr, len);
	return 0;
}

int simk_close(int fd)
{
	Kernel &k = K();
	k.calls_this_iter++;
	Fd *f = getfd(fd);
	if (!f) { k.hyg("close of descriptor never issued: " + fdname(fd)); errno = EBADF; return -1; }
	if (!f->open) { k.hyg("double close of " + fdname(fd)); errno = EBADF; return -1; }
	f->open = false; f->registered = false; f->in_ready = false;
	if (f->kind == K_CONN) {
		Conn &c = k.conns[f->conn];
		// a lingering close waits (up to its timeout) until the peer has taken what is queued: with a peer that does not read, the
		// single-threaded event loop stands still for that long
		if (f->linger && c.blocked && c.end_kind == END_NONE) k.hyg("close() of " + fdname(fd) + " with SO_LINGER set while its peer does not read: the event loop blocks");
		c.daemon_closed = true; c.out_at_close = c.out.size();
	}
	if (f->kind == K_LISTEN) { for (int id : f->backlog) { k.conns[id].daemon_closed = true; k.conns[id].aborted_in_accept = true; } f->backlog.clear(); }
	if (f->kind == K_FILE) k.snap("close");
	return 0;
}

int simk_unlink(const char *path)
{
	Kernel &k = K();
	k.calls_this_iter++;
	int e = fault("unlink");
	if (e) { errno = e; return -1; }
	auto it = k.file_by_path.find(path);
	if (it != k.file_by_path.end()) { k.file_by_path.erase(it); k.snap("unlink"); }
	return 0;
}
int simk_daemon(int a, int b) { (void)a; (void)b; K().daemonized = true; return 0; }
int simk_shutdown(int fd, int how) { (void)how; Fd *f = need(fd, "shutdown"); return f ? 0 : -1; }

static const char *junk_pattern(int id, size_t *n)
{
	static const char *pats[] = {"}}}]", "\"", "\0", "\xff", "{\"a\":1}", "]}", " "};
	static const size_t lens[] = {4, 1, 1, 1, 7, 2, 1};
	id = id % 7; if (id < 0) id = 0;
	*n = lens[id];
	return pats[id];
}

ssize_t simk_read(int fd, void *buf, size_t count)
{
	Kernel &k = K();
	Fd *f = need(fd, "read");
	if (!f) return -1;
	if (f->kind == K_TIMER) {
		k.calls_this_iter++;
		if (count < 8) { errno = EINVAL; return -1; }
		if (f->expirations == 0) { errno = EAGAIN; return -1; }
		uint64_t n = f->expirations; f->expirations = 0;
		memcpy(buf, &n, 8);
		return 8;
	}
	if (f->kind == K_FILE) {
		k.calls_this_iter++;
		const std::string &c = k.file_content[f->file];
		if (f->pos >= (long)c.size()) return 0;
		size_t n = std::min(count, c.size() - (size_t)f->pos);
		memcpy(buf, c.data() + f->pos, n); f->pos += n;
		return (ssize_t)n;
	}
	if (f->kind != K_CONN) { k.hyg("read on " + fdname(fd) + " which is not a connection"); errno = EINVAL; return -1; }
	if (!f->nonblock) k.hyg("read on blocking connection " + fdname(fd));
	Conn &c = k.conns[f->conn];
	int e = fault("read");
	if (e) { errno = e; return -1; }
	if (c.inbound.empty()) {
		if (c.end_kind == END_EOF || c.end_kind == END_HUP) return 0;
		if (c.end_kind == END_RESET) { errno = ECONNRESET; return -1; }
		errno = EAGAIN; return -1;
	}
	size_t n = std::min(count, c.inbound.size());
	if (c.chunk_all > 0) n = std::min(n, c.chunk_all);
	if (!c.chunk_plan.empty()) { size_t lim = c.chunk_plan.front(); c.chunk_plan.pop_front(); if (lim == 0) lim = 1; n = std::min(n, lim); }
	memcpy(buf, c.inbound.data(), n);
	c.inbound.erase(0, n);
	if (c.junk >= 0 && n < count) {
		size_t pn; const char *p = junk_pattern(c.junk, &pn);
		char *b = (char *)buf;
		for (size_t i = n; i < count; i++) b[i] = p[(i - n) % pn];
	}
	return (ssize_t)n;
}

ssize_t simk_writev(int fd, const struct iovec *iov, int cnt)
{
	Kernel &k = K();
	Fd *f = need(fd, "writev");
	if (!f) return -1;
	if (f->kind != K_CONN) { k.hyg("writev on " + fdname(fd) + " which is not a connection"); errno = EINVAL; return -1; }
	if (!f->nonblock) k.hyg("writev on blocking connection " + fdname(fd));
	Conn &c = k.conns[f->conn];
	WriteCall wc; wc.loop_iter = k.loop_iter;
	size_t total = 0;
	for (int i = 0; i < cnt; i++) { wc.iov.emplace_back((const char *)iov[i].iov_base, iov[i].iov_len); total += iov[i].iov_len; }
	long res;
	int e = fault("writev");
	if (e) { errno = e; res = -e; }
	else if (c.end_kind == END_RESET) { errno = EPIPE; res = -EPIPE; }
	else if (c.blocked) { errno = EAGAIN; res = -EAGAIN; }
	else {
		WriteDecision d;
		if (!c.wplan.empty()) { d = c.wplan.front(); c.wplan.pop_front(); }
		if (d.kind == W_PARTIAL && d.n == 0) d.kind = W_EAGAIN;
		if (d.kind == W_PARTIAL && d.n >= total) d.kind = W_FULL;
		switch (d.kind) {
		case W_FULL: res = (long)total; break;
		case W_PARTIAL: res = (long)d.n; c.blocked = true; break;
		case W_EAGAIN: c.blocked = true; errno = EAGAIN; res = -EAGAIN; break;
		default: errno = d.err ? d.err : EPIPE; res = -(long)errno; break;
		}
	}
	if (res > 0) {
		size_t left = (size_t)res;
		for (auto &s : wc.iov) { size_t t = std::min(left, s.size()); c.out.append(s.data(), t); left -= t; if (!left) break; }
	}
	wc.result = res;
	if (c.writes.size() < 100000) c.writes.push_back(std::move(wc));
	k.calls_this_iter++;
	return res >= 0 ? res : -1;
}

ssize_t simk_write(int fd, const void *buf, size_t n)
{
	Kernel &k = K();
	Fd *f = need(fd, "write");
	if (!f) return -1;
	if (f->kind == K_CONN) { struct iovec v; v.iov_base = (void *)buf; v.iov_len = n; return simk_writev(fd, &v, 1); }
	if (f->kind != K_FILE) { k.hyg("write on " + fdname(fd) + " which is neither file nor connection"); errno = EINVAL; return -1; }
	long arg = -1;
	int e = fault("write", &arg);
	if (e > 0) { errno = e; k.snap("write-failed"); return -1; }
	size_t m = n;
	if (e < 0 && arg >= 0 && (size_t)arg < n) m = (size_t)arg; // short write requested (err = -1)
	std::string &c = k.file_content[f->file];
	if ((size_t)f->pos > c.size()) c.resize(f->pos, '\0');
	c.replace(f->pos, std::min(m, c.size() - f->pos), std::string((const char *)buf, m));
	f->pos += m;
	k.snap("write");
	return (ssize_t)m;
}

ssize_t simk_send(int fd, const void *buf, size_t n, int flags) { (void)flags; return simk_write(fd, buf, n); }
ssize_t simk_recv(int fd, void *buf, size_t n, int flags) { (void)flags; return simk_read(fd, buf, n); }

// ---------------------------------------------------------------- epoll
int simk_epoll_create(int size)
{
	(void)size;
	int e = fault("epoll_create");
	if (e) { errno = e; return -1; }
	return newfd(K_EPOLL);
}
int simk_epoll_create1(int flags) { return simk_epoll_create(flags + 1); }

int simk_epoll_ctl(int epfd, int op, int fd, struct epoll_event *ev)
{
	Kernel &k = K();
	Fd *ep = getfd(epfd);
	if (!ep || !ep->open || ep->kind != K_EPOLL) {
		k.hyg("epoll_ctl through " + fdname(epfd) + " which is not an open epoll descriptor");
		k.calls_this_iter++;
		errno = EBADF; return -1;
	}
	Fd *f = getfd(fd);
	if (!f || !f->open) { k.hyg("epoll_ctl for " + std::string(f ? "closed " : "unknown ") + fdname(fd)); k.calls_this_iter++; errno = EBADF; return -1; }
	int e = fault("epoll_ctl");
	if (e) { errno = e; return -1; }
	if (op == EPOLL_CTL_ADD) {
		if (f->registered) { errno = EEXIST; return -1; }
		f->registered = true; f->epfd = epfd; f->data = ev->data.u64; f->evmask = ev->events; f->in_ready = false;
		if (current_mask(*f) != 0) k.mark_ready(fd);
		return 0;
	}
	if (op == EPOLL_CTL_DEL) {
		if (!f->registered) { errno = ENOENT; return -1; }
		f->registered = false; f->in_ready = false;
		return 0;
	}
	if (op == EPOLL_CTL_MOD) {
		if (!f->registered) { errno = ENOENT; return -1; }
		f->data = ev->data.u64; f->evmask = ev->events;
		if (current_mask(*f) != 0) k.mark_ready(fd);
		return 0;
	}
	errno = EINVAL; return -1;
}

int simk_epoll_wait(int epfd, struct epoll_event *events, int maxevents, int timeout)
{
	(void)timeout;
	Kernel &k = K();
	Fd *ep = getfd(epfd);
	if (!ep || !ep->open || ep->kind != K_EPOLL) { k.hyg("epoll_wait on " + fdname(epfd)); errno = EBADF; return -1; }
	k.loop_iter++;
	k.calls_this_iter = 0;
	if (k.on_iteration) k.on_iteration();
	for (;;) {
		int e = fault("epoll_wait");
		if (e) { errno = e; return -1; }
		std::vector<int> ready;
		for (size_t i = 0; i < k.fds.size(); i++) {
			Fd &f = k.fds[i];
			if (f.open && f.registered && f.in_ready) {
				if (current_mask(f) == 0) { f.in_ready = false; continue; }
				ready.push_back((int)i);
			}
		}
		if (!ready.empty()) {
			std::sort(ready.begin(), ready.end(), [&](int a, int b) { return k.fds[a].ready_seq < k.fds[b].ready_seq; });
			if (k.pick) k.pick(ready);
			int n = 0;
			for (int fd : ready) {
				if (n >= maxevents) break;
				Fd &f = k.fds[fd];
				if (!f.open || !f.registered || !f.in_ready) continue;
				uint32_t m = current_mask(f);
				if (!m) continue;
				f.in_ready = false;
				events[n].events = m; events[n].data.u64 = f.data;
				if (f.kind == K_CONN) { Conn &c = k.conns[f.conn]; if (c.end_kind != END_NONE && c.inbound.empty()) c.end_reported = true; }
				n++;
			}
			if (n > 0) return n;
			continue;
		}
		// nothing ready: the world moves
		bool go = k.on_idle ? k.on_idle() : false;
		if (!go) {
			k.terminate_requested = true;
			if (k.sigterm_handler) k.sigterm_handler(SIGTERM);
			errno = EINTR;
			return -1;
		}
	}
}

// ---------------------------------------------------------------- timers
int simk_timerfd_create(int clockid, int flags)
{
	(void)clockid;
	int e = fault("timerfd_create");
	if (e) { errno = e; return -1; }
	int fd = newfd(K_TIMER);
	K().fds[fd].nonblock = (flags & O_NONBLOCK) != 0;
	return fd;
}

int simk_timerfd_settime(int fd, int flags, const struct itimerspec *nv, struct itimerspec *ov)
{
	(void)flags; (void)ov;
	Kernel &k = K();
	Fd *f = need(fd, "timerfd_settime");
	if (!f) return -1;
	if (f->kind != K_TIMER) { k.hyg("timerfd_settime on non-timer " + fdname(fd)); errno = EINVAL; return -1; }
	int e = fault("timerfd_settime");
	if (e) { errno = e; return -1; }
	if (nv->it_value.tv_nsec < 0 || nv->it_value.tv_nsec >= 1000000000L || nv->it_value.tv_sec < 0) { errno = EINVAL; return -1; }
	uint64_t v = (uint64_t)nv->it_value.tv_sec * 1000000000ull + (uint64_t)nv->it_value.tv_nsec;
	if (v == 0) { f->armed = false; f->expirations = 0; }
	else { f->armed = true; f->deadline = k.now_ns + v; f->expirations = 0; f->armed_at = k.now_ns; f->armed_value = v; }
	k.timer_log.push_back({fd, k.now_ns, v});
	return 0;
}

// ---------------------------------------------------------------- signals, log
typedef void (*sighandler_fn)(int);
sighandler_fn simk_signal(int sig, sighandler_fn h)
{
	Kernel &k = K();
	k.calls_this_iter++;
	if (sig == SIGTERM) { k.sigterm_handler = (h == SIG_DFL || h == SIG_IGN) ? nullptr : h; }
	return SIG_DFL;
}

sighandler_fn simk_sysv_signal(int sig, sighandler_fn h) { return simk_signal(sig, h); }

void simk_syslog(int prio, const char *fmt, ...)
{
	(void)prio;
	char buf[2048];
	va_list ap; va_start(ap, fmt);
	vsnprintf(buf, sizeof buf, fmt, ap);
	va_end(ap);
	Kernel &k = K();
	if (k.logs.size() < 20000) k.logs.emplace_back(buf);
}

// ---------------------------------------------------------------- files
int simk_open(const char *path, int flags, ...)
{
	(void)flags;
	Kernel &k = K();
	int e = fault("open");
	if (e) { errno = e; return -1; }
	auto it = k.file_by_path.find(path);
	if (it == k.file_by_path.end()) {
		if (!(flags & O_CREAT)) { errno = ENOENT; return -1; }
		k.add_file(path, "");
		it = k.file_by_path.find(path);
	} else if (flags & O_TRUNC) {
		k.file_content[it->second].clear();
		k.snap("open-trunc");
	}
	int fd = newfd(K_FILE);
	k.fds[fd].file = it->second; k.fds[fd].pos = 0;
	return fd;
}

off_t simk_lseek(int fd, off_t off, int whence)
{
	Kernel &k = K();
	Fd *f = need(fd, "lseek");
	if (!f) return -1;
	k.calls_this_iter++;
	if (f->kind != K_FILE) { errno = ESPIPE; return -1; }
	long size = (long)k.file_content[f->file].size();
	if (whence == SEEK_SET) f->pos = off; else if (whence == SEEK_CUR) f->pos += off; else f->pos = size + off;
	return f->pos;
}

void *simk_mmap(void *addr, size_t len, int prot, int flags, int fd, off_t off)
{
	(void)addr; (void)prot; (void)flags; (void)off;
	Kernel &k = K();
	Fd *f = need(fd, "mmap");
	if (!f) return MAP_FAILED;
	int e = fault("mmap");
	if (e) { errno = e; return MAP_FAILED; }
	if (len == 0 || f->kind != K_FILE) { errno = EINVAL; return MAP_FAILED; }
	size_t pg = 4096, mlen = (len + pg - 1) / pg * pg;
	void *p = mmap(nullptr, mlen, PROT_READ | PROT_WRITE, MAP_PRIVATE | MAP_ANONYMOUS, -1, 0);
	if (p == MAP_FAILED) return p;
	const std::string &c = k.file_content[f->file];
	memcpy(p, c.data(), std::min(len, c.size()));
	mprotect(p, mlen, PROT_READ);
	return p;
}

int simk_munmap(void *p, size_t len) { K().calls_this_iter++; size_t pg = 4096; return munmap(p, (len + pg - 1) / pg * pg); }

char *simk_realpath(const char *path, char *resolved)
{
	Kernel &k = K();
	if (k.file_by_path.find(path) == k.file_by_path.end()) { errno = ENOENT; return nullptr; }
	if (resolved) { strcpy(resolved, path); return resolved; }
	char *p = (char *)simk_malloc(strlen(path) + 1);
	if (p) strcpy(p, path);
	return p;
}

int simk_ftruncate(int fd, off_t len)
{
	Kernel &k = K();
	Fd *f = need(fd, "ftruncate");
	if (!f) return -1;
	if (f->kind != K_FILE) { errno = EINVAL; return -1; }
	int e = fault("ftruncate");
	if (e) { errno = e; return -1; }
	k.file_content[f->file].resize((size_t)len, '\0');
	k.snap("ftruncate");
	return 0;
}

int simk_fstat(int fd, struct stat *st)
{
	Kernel &k = K();
	Fd *f = need(fd, "fstat");
	if (!f) return -1;
	int e = fault("fstat");
	if (e) { errno = e; return -1; }
	memset(st, 0, sizeof *st);
	if (f->kind == K_FILE) { st->st_mode = S_IFREG | 0640; st->st_size = (off_t)k.file_content[f->file].size(); }
	else st->st_mode = S_IFSOCK | 0600;
	return 0;
}

int simk_fsync(int fd) { Fd *f = need(fd, "fsync"); if (!f) return -1; int e = fault("fsync"); if (e) { errno = e; return -1; } return 0; }
int simk_fdatasync(int fd) { return simk_fsync(fd); }

int simk_rename(const char *from, const char *to)
{
	Kernel &k = K();
	int e = fault("rename");
	if (e) { errno = e; return -1; }
	auto it = k.file_by_path.find(from);
	if (it == k.file_by_path.end()) { errno = ENOENT; return -1; }
	int id = it->second;
	// open descriptors keep referring to the content object they opened (inode semantics)
	k.file_by_path[to] = id;
	k.file_by_path.erase(from);
	k.snap("rename");
	return 0;
}

} // extern "C"
