// Scenario interpreter: runs inside the simulated kernel's epoll_wait, plays every client,
// feeds the reference model and judges the daemon's output at every quiescent point.
#pragma once
#include "codec.hpp"
#include "json.hpp"
#include "model.hpp"
#include "scenario.hpp"
#include "simk.hpp"

#include <algorithm>
#include <cerrno>
#include <cmath>
#include <deque>
#include <functional>
#include <map>
#include <set>
#include <string>
#include <vector>

namespace world {
using js::Value;
using namespace scen;

struct Violation { std::string rule, detail; };

struct Verdict {
	std::vector<Violation> v;
	std::set<std::string> labels;
	std::map<std::string, long> stat;
	bool completed = false; // the child reached its orderly end
	std::vector<std::string> transcripts; // per connection: canonical rendering of everything the daemon sent (differential oracles)
	void add(const std::string &rule, const std::string &detail) { if (v.size() < 20) v.push_back({rule, detail}); }
	bool failed() const { return !v.empty(); }
};

struct RunOpts {
	bool model_check = true;    // per-step agreement of every transcript with the model
	bool replica_check = true;  // C01 replica replay from received notifications
	bool baseline_check = true; // C07 idle baseline after everything closed / clean exit
	bool hygiene_check = true;  // descriptor discipline
	bool observe = false;       // observer connection issues get + holds fetch-all, compared after every step
	bool serve_probe = true;    // a fresh connection gets an info response at the end
	bool cap_check = true;
	bool timer_duration_check = false; // C14
	bool allow_timer_join = false;
	bool accounting_check = false; // C15: never more responses with an id than requests that carried it
	bool framing_check = false; // C10: accepted byte stream = in-order concatenation of whole generated frames
	bool ws_check = true;      // C12/C13: handshake answers, close statuses, pongs
	bool reserve_conn0 = false; // operations with a non-zero connection selector never land on connection 0
	bool census = false;        // C15: at the end a fresh subscriber lists everything; kinds and values must be ones some request asked for
	bool gap_check = false;     // C02 under back-pressure: on a connection that is still open every request with an id has been answered
	bool allow_reset_join = false; // a reset racing with deliveries to that connection is a fault (C05/C11 domain)
	std::set<std::string> ignore_rules; // known findings suppressed by rule id
};

// built-in pools -----------------------------------------------------------------------------
inline const std::vector<std::string> &default_paths()
{
	static const std::vector<std::string> p = {"a", "b", "a/b", "A", "ab", "xyz/1", "xyz/2", "B/a", "", "\xc3\xa9tat", "a/b/c", "zz"};
	return p;
}
inline const std::vector<std::string> &default_values()
{
	static const std::vector<std::string> v = {"1", "\"x\"", "null", "true", "{\"k\":[1,2,{\"z\":null}]}", "[]", "-2.5", "\"\"", "12345678901", "{\"a\":{\"b\":\"c\"}}", "false", "[1,\"two\",3.25]", "0", "1e20", "\"\\u00e4\\n\""};
	return v;
}
inline const std::vector<std::string> &default_rules()
{
	static const std::vector<std::string> r = {"", "{\"equals\":\"a\"}", "{\"startsWith\":\"a\"}", "{\"contains\":\"/\"}", "{\"startsWith\":\"a\",\"endsWith\":\"b\"}", "{\"equalsNot\":\"a\"}",
	                                           "{\"startsWith\":\"A\",\"caseInsensitive\":true}", "{\"containsAllOf\":[\"a\",\"b\"]}", "{\"endsWith\":\"1\",\"startsWith\":\"xyz\"}", "{\"contains\":\"zz\"}"};
	// (rules 4 and 8 hold two matchers each, in both orders: some pool path is accepted by the first and rejected by the last, and vice versa)
	return r;
}
struct TimeoutSpec { const char *json; }; // "" = absent
inline const std::vector<std::string> &timeout_table()
{
	static const std::vector<std::string> t = {"", "0.001", "0.5", "2", "10", "0.0005", "\"1\"", "-1", "0", "0.25", "7.5", "true", "null", "0.00099999", "0.0010001"};
	return t;
}
inline const std::vector<uint64_t> &advance_table()
{
	static const std::vector<uint64_t> t = {1000000ull, 999999ull, 1ull, 250000000ull, 499999999ull, 500000000ull, 1000000000ull, 2000000000ull, 5000000000ull, 7500000000ull, 10000000000ull, 100000ull, 1500000000ull};
	return t;
}

struct CConn {
	int transport = 0; // 0 raw, 1 ws, 2 uds
	int kc = -1;       // kernel connection id
	bool ws = false;
	bool handshake_valid = true;
	bool http_done = false;
	codec::HttpHead http;
	size_t dec_pos = 0;
	std::vector<Value> msgs;      // decoded JSON messages, in order
	std::vector<std::string> raw; // their texts
	size_t checked = 0;           // msgs[0..checked) already judged
	std::vector<codec::WsFrame> ctrl; // non-text frames received
	bool client_ended = false;
	bool model_dropped = false;
	bool decode_failed = false;
	bool is_observer = false;
	bool is_probe = false;
	bool ended_this_step = false;
	bool model_connected = false; bool local = true;
	bool poisoned = false;   // a truncated frame was sent: nothing meaningful can follow on this stream
	bool hs_truncated = false; // the HTTP request was cut short (no terminating empty line was sent)
	std::set<int> expect_close; // after a violating/closing frame: acceptable close statuses (-1 any)
	bool expect_close_armed = false;
	std::deque<std::string> expect_pongs;
	size_t ctrl_checked = 0;
	bool faulty = false;     // full send path or failing socket (C11): it may be dropped, others must not notice
	bool unchecked = false;  // output is not compared with the model any more (slow reader, poisoned stream)
	std::string ws_key;
};

struct ModelEvent {
	enum K { MESSAGE, INVALID, ENDED, ADVANCE, CONNECTED } k = MESSAGE;
	int conn = -1;
	Value msg;
	uint64_t ns = 0;
	size_t seq = 0;
	bool local = true;
	int endkind = 0;
};

struct Replica { std::map<std::string, Value> states; std::set<std::string> methods; bool ended = false; };

class World {
public:
	Scenario sc;
	RunOpts opt;
	model::Model m;
	Verdict vd;
	std::vector<CConn> cc;
	size_t next_op = 0;
	size_t step_no = 0;
	uint64_t next_id = 2001; // (never equal to one of the fixed ids of the RAWREQ shapes: 0, 1, 100, 1000, ...)
	enum Phase { START, RUN, CLOSING, PROBE, TERM, DONE, DRAINED, CENSUS } phase = START;
	// baseline
	long base_alloc_calls = 0;
	std::map<std::pair<int, std::string>, long> sent_ids;
	std::map<std::pair<int, std::string>, long> direct_ids; // requests whose response is produced while they are processed (everything but set/call)
	size_t base_alloc = 0, base_fds = 0, base_live = 0; int base_peers = 0; size_t base_timers = 0;
	std::vector<int> base_fdset;
	// expectations of the running step
	model::StepExp exp, alt_exp;
	bool have_alt = false; int alt_conn = -1;
	bool connect_burst = false;
	bool resource_accept_fault = false; // an accept() failure of the "out of descriptors/memory" kind was injected: queued connections may legitimately wait
	model::Model alt_model;
	size_t step_model_events = 0;
	bool step_has_alt_flag = false;
	bool race_alt = false; // the step races a timer expiry against another event: either processing order is acceptable
	size_t timer_log_seen = 0;
	uint64_t first_seq_of_step = 1;
	std::vector<uint64_t> concluded_in_step;
	std::map<std::pair<int, std::string>, Replica> replicas; // (conn, dump(fetch id))
	std::map<std::pair<int, std::string>, std::string> unfetch_reqs; // (conn, request id) -> fetch key
	std::map<std::pair<int, std::string>, int> open_keys; // fetch requests sent minus unfetch responses seen
	int observer = -1;
	int probe_conn = -1; int probe_attempts = 0; long probe_failures_seen = 0;
	int census_conn = -1; long census_failures_seen = 0;
	std::map<std::string, std::set<std::string>> asked; // path -> every value an add/change request carried for it ("<method>" for an add without value)
	int sigterm_count = 0;
	size_t max_alloc_seen = 0;
	Value *batch_sink = nullptr; int batch_conn = -1;
	struct Prepared { size_t op_index = (size_t)-1; int kc = -1; std::string rest; std::vector<ModelEvent> evs; } prepared;
	std::string *capture = nullptr; // when set, deliveries are recorded instead of sent
	size_t max_message_size = 512;
	std::function<void(World &)> custom_check; // property specific oracle at quiescence
	std::function<void(World &)> custom_final;

	const std::vector<std::string> &paths() const { return sc.paths.empty() ? default_paths() : sc.paths; }
	const std::vector<std::string> &values() const { return sc.values.empty() ? default_values() : sc.values; }
	const std::vector<std::string> &rules() const { return sc.rules.empty() ? default_rules() : sc.rules; }
	template <class T> static const T &pick(const std::vector<T> &v, int i) { return v[(size_t)((i % (int)v.size()) + (int)v.size()) % v.size()]; }

	World(const Scenario &s, const RunOpts &o) : sc(s), opt(o)
	{
		auto cfg_of = [&](const std::string &v) {
			model::Config c;
			if (v == "tiny") { c.elem_order = 2; c.route_order = 2; }
			else if (v == "small") { c.elem_order = 4; c.route_order = 3; }
			else if (v == "local") c.local_only_add = true;
			return c;
		};
		m.cfg = cfg_of(sc.variant);
		if (!sc.cred.empty()) load_cred_into_model();
	}

	void load_cred_into_model()
	{
		Value c;
		if (!js::parse(sc.cred, c)) return;
		m.cred_loaded = true;
		const Value *users = c.get("users");
		if (!users) return;
		size_t ui = 0;
		for (auto &u : users->o) {
			model::User mu;
			const Value *auth = u.second.get("auth");
			mu.has_auth = auth != nullptr;
			auto names = [&](const char *k) { std::set<std::string> s; const Value *a = auth ? auth->get(k) : nullptr; if (a && a->is_arr()) for (auto &g : a->a) if (g.is_str()) s.insert(g.s); return s; };
			mu.fg = names("fetchGroups"); mu.sg = names("setGroups"); mu.cg = names("callGroups");
			if (auto *a = u.second.get("admin")) mu.admin = a->is_bool() && a->b;
			if (auto *r = u.second.get("readonly")) mu.readonly = r->is_bool() && r->b;
			mu.has_password = u.second.get("password") && u.second.get("password")->is_str();
			// the plain password is carried by the scenario (users[] / passwords[] are parallel)
			for (size_t i = 0; i < sc.users.size(); i++) if (sc.users[i] == u.first && i < sc.passwords.size()) mu.password = sc.passwords[i];
			m.users[u.first] = mu;
			ui++;
		}
	}

	// ------------------------------------------------------------------ sending
	std::deque<std::pair<int, std::string>> pending_tails; // second halves of split deliveries
	bool step_single = false;
	void deliver(int kc, const std::string &bytes)
	{
		if (capture) { *capture += bytes; return; }
		if (sc.dribble != 0 && step_single && bytes.size() >= 2) {
			uint64_t h = (uint64_t)sc.dribble * 0x9E3779B97F4A7C15ull + step_no * 0xC2B2AE3D27D4EB4Full + bytes.size(); h ^= h >> 31;
			size_t cut = 1 + (size_t)(h % (bytes.size() - 1));
			if (sc.dribble % 3 == 1) cut = std::min<size_t>(cut, 1 + h % 6); // often inside the length prefix / frame header
			simk::K().send(kc, bytes.substr(0, cut));
			pending_tails.push_back({kc, bytes.substr(cut)});
			vd.stat["split_deliveries"]++;
			return;
		}
		simk::K().send(kc, bytes);
	}

	std::string frame_for(const CConn &c, const std::string &payload)
	{
		if (!c.ws) return codec::raw_frame(payload);
		codec::WsFrame f; f.payload = payload; f.opcode = 1;
		uint32_t k = (uint32_t)(payload.size() * 2654435761u + step_no * 40503u + 0x1234567);
		f.mask[0] = k; f.mask[1] = k >> 8; f.mask[2] = k >> 16; f.mask[3] = k >> 24;
		return codec::ws_encode(f);
	}

	std::string handshake_text(const CConn &c, int variant)
	{
		(void)variant;
		return std::string("GET /api/jet/ HTTP/1.1\r\nHost: localhost:11123\r\nUpgrade: websocket\r\nConnection: Upgrade\r\nSec-WebSocket-Key: ") + c.ws_key +
		       "\r\nSec-WebSocket-Protocol: jet\r\nSec-WebSocket-Version: 13\r\n\r\n";
	}

	int live_conn(int sel) const
	{
		if (cc.empty()) return -1;
		int n = (int)cc.size();
		if (opt.reserve_conn0 && sel != 0 && n > 1) return 1 + ((((sel - 1) % (n - 1)) + (n - 1)) % (n - 1)); // connection 0 belongs to the witness alone
		return ((sel % n) + n) % n;
	}

	Value make_id(const Op &op)
	{
		// a function of the operation's position, not of how many requests were actually sent before it: the same operation carries
		// the same id under every schedule, whether or not an earlier operation turned out to be a no-op
		uint64_t n = next_id + (uint64_t)cur_op * 3 + (ids_in_op < 2 ? ids_in_op : 2); ids_in_op++;
		if (op.idm == ID_STR) return Value::str("r" + std::to_string(n));
		if (op.idm == scen::ID_LONG) return Value::str(std::string(70, 'L') + std::to_string(n));
		return Value::num((double)n);
	}
	static Value fetch_id_value(int idx) { if (idx % 2 == 0) return Value::num(idx / 2 + 1); return Value::str("f" + std::to_string(idx)); }
	static Value parse_or_null(const std::string &t) { Value v; if (!js::parse(t, v)) return Value::null(); return v; }

	Value request(const Op &op0, const char *method, Value params)
	{
		Value r = Value::obj();
		Op op = op0;
		// where a resource limit may refuse a request, only a response can tell the harness which way it went
		if (op.idm == ID_NONE && m.cfg.elem_order < 13 && (op.kind == ADD || op.kind == SET || op.kind == CALL)) op.idm = ID_NUM;
		if (op.idm == ID_NONE && op.kind == PASSWD) op.idm = ID_NUM; // a failing file system may refuse the change
		if (op.idm != ID_NONE) r.set("id", make_id(op));
		r.set("method", Value::str(method));
		r.set("params", params);
		return r;
	}

	void add_timeout(Value &params, int idx)
	{
		const std::string &t = pick(timeout_table(), idx);
		if (!t.empty()) params.set("timeout", parse_or_null(t));
	}

	void send_value(int ci, const Value &v, std::vector<ModelEvent> &evs)
	{
		CConn &c = cc[ci];
		if (batch_sink) { batch_sink->push(v); return; }
		{
			auto note = [&](const Value &o) {
				const Value *id = o.get("id"); if (!(o.is_obj() && o.has("method") && model::valid_id(id))) return;
				sent_ids[{ci, js::dump(*id)}]++;
				const Value *mt = o.get("method");
				if (!(mt->is_str() && (mt->s == "set" || mt->s == "call"))) direct_ids[{ci, id_key(*id)}]++;
			};
			auto note_value = [&](const Value &o) {
				const Value *mt = o.get("method"), *pr = o.get("params");
				if (!o.is_obj() || !mt || !mt->is_str() || !pr || !pr->is_obj() || (mt->s != "add" && mt->s != "change")) return;
				const Value *pa = pr->get("path"); if (!pa || !pa->is_str()) return;
				const Value *va = pr->get("value");
				asked[pa->s].insert(va ? js::dump(*va) : std::string("<method>"));
			};
			if (v.is_arr()) for (auto &e : v.a) note_value(e); else note_value(v);
			if (v.is_arr()) for (auto &e : v.a) note(e); else note(v);
		}
		std::string txt = js::dump(v);
		if (trace()) fprintf(stderr, "TRACE step %d > conn %d: %s\n", (int)step_no, ci, txt.substr(0, 400).c_str());
		deliver(c.kc, frame_for(c, txt));
		ModelEvent e; e.k = ModelEvent::MESSAGE; e.conn = ci; e.msg = v; e.seq = evs.size();
		if (txt.size() > max_message_size) { e.k = ModelEvent::INVALID; vd.labels.insert("over-long-message"); } // above the configured maximum: the connection ends
		evs.push_back(e);
		vd.stat["msgs_sent"]++;
	}

	// Symbolic aiming (bit 1 of op.c): resolve the path against the model's current state so that generated
	// operations hit existing elements often; without the bit (or with nothing to aim at) the pool index is used.
	std::string path_for(const Op &op, int ci)
	{
		if (op.c & 2) {
			std::vector<std::string> cand;
			switch (op.kind) {
			case REMOVE: case CHANGE: cand = m.peer(ci).owned; break;
			case SET: for (auto &e : m.elems) if (e.second.is_state) cand.push_back(e.first); break;
			case CALL: for (auto &e : m.elems) if (!e.second.is_state) cand.push_back(e.first); break;
			case ADD: for (auto &g : m.gone_paths) if (!m.elems.count(g)) cand.push_back(g); break;
			default: break;
			}
			if (!cand.empty()) { vd.stat["aimed"]++; return pick(cand, op.a); }
		}
		return pick(paths(), op.a);
	}

	std::vector<model::Inflight *> owner_inflight(int ci)
	{
		std::vector<model::Inflight *> v;
		for (auto &r : m.inflight) if (r.owner == ci && !r.rid.empty()) v.push_back(&r);
		return v;
	}

	size_t cur_op = 0; unsigned ids_in_op = 0;
	void do_op(const Op &op, std::vector<ModelEvent> &evs)
	{
		cur_op = (size_t)(&op - sc.ops.data()); ids_in_op = 0; // (operations are always elements of sc.ops)
		simk::Kernel &k = simk::K();
		vd.stat[std::string("op_") + kind_names[op.kind]]++;
		if (op.kind == CONNECT) {
			CConn c; c.transport = ((op.a % 3) + 3) % 3; c.ws = c.transport == 1;
			int ep = c.transport == 0 ? simk::EP_RAW : c.transport == 1 ? simk::EP_HTTP : simk::EP_UDS;
			int origin = ((op.b % 4) + 4) % 4;
			c.kc = k.connect(ep, origin);
			if (sc.chunk_all > 0) k.conns[c.kc].chunk_all = (size_t)sc.chunk_all;
			if (sc.junk_all >= 0) k.conns[c.kc].junk = sc.junk_all;
			char keybuf[17]; snprintf(keybuf, sizeof keybuf, "k%015d", (int)cc.size());
			c.ws_key = codec::base64(std::string(keybuf, 16));
			cc.push_back(c);
			int ci = (int)cc.size() - 1;
			if (c.ws) {
				std::string hs = op.s.empty() ? handshake_text(cc[ci], 0) : op.s;
				if (!op.s.empty()) {
					cc[ci].handshake_valid = !(op.c & 1);
					size_t kp = model::folded(hs).find("sec-websocket-key: ");
					if (kp != std::string::npos) { size_t ke = hs.find("\r\n", kp); cc[ci].ws_key = hs.substr(kp + 19, ke == std::string::npos ? std::string::npos : ke - kp - 19); }
					if (op.d > 0 && (size_t)op.d < hs.size()) { hs.resize((size_t)op.d); cc[ci].hs_truncated = true; cc[ci].handshake_valid = false; cc[ci].poisoned = true; }
					vd.labels.insert(cc[ci].handshake_valid ? "handshake:valid-variant" : cc[ci].hs_truncated ? "handshake:truncated" : "handshake:invalid");
				}
				if (!connect_burst) step_single = true;   // a lone CONNECT is a step of its own: the request may arrive in two pieces like any other delivery
				deliver(c.kc, hs);
			}
			ModelEvent e; e.k = ModelEvent::CONNECTED; e.conn = ci; e.seq = evs.size();
			e.local = c.transport == 2 || origin == simk::OR_V4MAPPED_LOOPBACK || origin == simk::OR_V6_LOOPBACK;
			evs.push_back(e);
			vd.labels.insert(c.transport == 0 ? "transport:raw" : c.transport == 1 ? "transport:ws" : "transport:uds");
			return;
		}
		if (op.kind == ADVANCE) {
			uint64_t ns = pick(advance_table(), op.a);
			k.advance(ns);
			ModelEvent e; e.k = ModelEvent::ADVANCE; e.ns = ns; e.seq = evs.size();
			evs.push_back(e);
			return;
		}
		if (op.kind == FAULT) {
			static const char *calls[] = {"accept", "writev", "read", "fcntl", "setsockopt", "getsockname", "epoll_ctl", "timerfd_create", "timerfd_settime",
			                              "ftruncate", "write", "open", "rename", "fsync"};
			static const int errs[] = {ECONNABORTED, EMFILE, EINTR, ENOMEM, EPIPE, ECONNRESET, EIO, EBADF, ENFILE, EPROTO, ENOSPC, EDQUOT};
			int ca = ((op.a % 15) + 15) % 15;
			if (ca == 14) { // short write: the nth write() on a file takes only d bytes
				k.add_fault("write", ((op.b % 4) + 4) % 4, -1, op.d < 0 ? 0 : op.d);
				vd.labels.insert("fault:short-write");
				return;
			}
			k.add_fault(calls[ca], ((op.b % 8) + 8) % 8, errs[((op.c % 12) + 12) % 12]);
			vd.labels.insert(std::string("fault:") + calls[ca]);
			{ int en = errs[((op.c % 12) + 12) % 12]; if (ca == 0 && en != ECONNABORTED && en != EPROTO && en != EINTR) resource_accept_fault = true; }
			return;
		}
		int ci = batch_sink ? batch_conn : live_conn(op.conn);
		if (ci < 0) { vd.stat["noop"]++; return; }
		CConn &c = cc[ci];
		if (c.client_ended || k.conns[c.kc].daemon_closed || !k.conns[c.kc].accepted) {
			if (op.kind != END) { vd.stat["noop"]++; return; }
		}
		if (c.poisoned && op.kind != END && op.kind != WPLAN && op.kind != DRAIN) { vd.stat["noop"]++; return; }
		switch (op.kind) {
		case PREFIX: {
			if (c.ws) { vd.stat["noop"]++; return; }
			if (op.a == 0) { deliver(c.kc, codec::be32(0)); vd.labels.insert("zero-length-prefix"); return; }
			static const uint32_t big[] = {513, 514, 1024, 65536, 0x7fffffffu, 0xffffffffu, 0x80000000u};
			deliver(c.kc, codec::be32(big[(size_t)op.a % 7]));
			{ ModelEvent e; e.k = ModelEvent::INVALID; e.conn = ci; e.seq = evs.size(); evs.push_back(e); }
			vd.labels.insert("over-long-prefix");
			return;
		}
		case PARTIAL: {
			Value r = Value::obj(); r.set("id", Value::str("partial")); r.set("method", Value::str(op.b % 2 ? "info" : "get")); r.set("params", Value::obj());
			std::string framed = frame_for(c, js::dump(r));
			size_t cut = (size_t)(((op.a % (int)framed.size()) + (int)framed.size()) % (int)framed.size());
			if (op.b % 3 == 2 && c.ws && !c.http_done) { framed = handshake_text(c, 0); cut = cut % framed.size(); } // (handshake already sent: extra header bytes)
			k.send(c.kc, framed.substr(0, cut));
			c.poisoned = true;
			vd.labels.insert(cut < 4 ? "partial:in-prefix-or-header" : "partial:in-payload");
			return;
		}
		case END: {
			if (c.client_ended) { vd.stat["noop"]++; return; }
			int kind = ((op.a % 3) + 3) % 3 + 1;
			k.end(c.kc, kind);
			c.client_ended = true; c.ended_this_step = true;
			ModelEvent e; e.k = ModelEvent::ENDED; e.conn = ci; e.seq = evs.size(); e.endkind = kind;
			evs.push_back(e);
			vd.labels.insert(kind == 1 ? "end:eof" : kind == 2 ? "end:hup" : "end:reset");
			return;
		}
		case BYTES: k.send(c.kc, op.s); vd.stat["raw_bytes"] += (long)op.s.size(); c.poisoned = true; c.unchecked = true; return; // arbitrary bytes: only robustness is judged on this stream
		case MSG: {
			deliver(c.kc, frame_for(c, op.s));
			ModelEvent e; e.conn = ci; e.seq = evs.size();
			if (js::parse(op.s, e.msg)) e.k = ModelEvent::MESSAGE; else e.k = ModelEvent::INVALID;
			evs.push_back(e);
			return;
		}
		case ADD: {
			Value p = Value::obj(); p.set("path", Value::str(path_for(op, ci)));
			if (op.b >= 0) p.set("value", parse_or_null(pick(values(), op.b)));
			if (op.c & 1) p.set("fetchOnly", Value::boolean(true));
			add_timeout(p, op.d);
			if (!op.v.empty() && !sc.accesses.empty() && op.v[0] > 0) p.set("access", parse_or_null(pick(sc.accesses, op.v[0])));
			send_value(ci, request(op, "add", p), evs);
			return;
		}
		case REMOVE: { Value p = Value::obj(); p.set("path", Value::str(path_for(op, ci))); send_value(ci, request(op, "remove", p), evs); return; }
		case CHANGE: {
			Value p = Value::obj(); p.set("path", Value::str(path_for(op, ci))); p.set("value", parse_or_null(pick(values(), op.b < 0 ? 0 : op.b)));
			send_value(ci, request(op, "change", p), evs); return;
		}
		case FETCH: {
			Value p = Value::obj(); p.set("id", fetch_id_value(((op.a % 6) + 6) % 6));
			open_keys[{ci, js::dump(*p.get("id"))}]++;
			const std::string &r = pick(rules(), op.b);
			if (!r.empty()) p.set("path", parse_or_null(r));
			send_value(ci, request(op, "fetch", p), evs); return;
		}
		case UNFETCH: {
			Value p = Value::obj(); p.set("id", fetch_id_value(((op.a % 6) + 6) % 6));
			Op o2 = op; if (o2.idm == ID_NONE) o2.idm = ID_NUM; // the unfetch response delimits the fetch's life
			Value rq = request(o2, "unfetch", p);
			unfetch_reqs[{ci, js::dump(*rq.get("id"))}] = js::dump(*p.get("id"));
			send_value(ci, rq, evs); return;
		}
		case GET: {
			Value p = Value::obj(); const std::string &r = pick(rules(), op.b);
			if (!r.empty()) p.set("path", parse_or_null(r));
			send_value(ci, request(op, "get", p), evs); return;
		}
		case SET: {
			Value p = Value::obj(); p.set("path", Value::str(path_for(op, ci))); p.set("value", parse_or_null(pick(values(), op.b < 0 ? 0 : op.b)));
			add_timeout(p, op.d);
			send_value(ci, request(op, "set", p), evs); return;
		}
		case CALL: {
			Value p = Value::obj(); p.set("path", Value::str(path_for(op, ci)));
			if (op.b >= 0) p.set("args", parse_or_null(pick(values(), op.b)));
			add_timeout(p, op.d);
			send_value(ci, request(op, "call", p), evs); return;
		}
		case REPLY: {
			auto mine = owner_inflight(ci);
			int mode = ((op.b % RP_NMODES) + RP_NMODES) % RP_NMODES;
			std::string rid;
			if (mode == RP_OTHERS_RID) {
				for (auto &r : m.inflight) if (r.owner != ci && !r.rid.empty()) { rid = r.rid; break; }
				if (rid.empty()) mode = RP_FORGED;
			}
			if (mode == RP_FORGED) rid = (mine.empty() ? std::string("nobody") : mine[0]->rid) + "_forged";
			if (rid.empty()) {
				if (mine.empty()) { vd.stat["noop"]++; return; }
				rid = mine[(size_t)(((op.a % (int)mine.size()) + (int)mine.size()) % (int)mine.size())]->rid;
			}
			Value r = Value::obj(); r.set("id", Value::str(rid));
			Value payload = parse_or_null(pick(values(), op.c));
			bool as_error = mode == RP_ERROR || (mode != RP_RESULT && (op.c & 1));
			if (as_error) { Value e = Value::obj(); e.set("code", Value::num(-32000 - (op.c % 5))); e.set("message", Value::str("owner says no")); e.set("data", payload); r.set("error", e); }
			else r.set("result", payload);
			send_value(ci, r, evs);
			if (mode == RP_DUPLICATE) send_value(ci, r, evs);
			vd.labels.insert(std::string("reply:") + (mode == RP_RESULT ? "result" : mode == RP_ERROR ? "error" : mode == RP_FORGED ? "forged" : mode == RP_DUPLICATE ? "duplicate" : "others"));
			return;
		}
		case CONFIG: { Value p = Value::obj(); p.set("name", Value::str("peer" + std::to_string(op.a % 5))); send_value(ci, request(op, "config", p), evs); return; }
		case INFO: { Value r = Value::obj(); if (op.idm != ID_NONE) r.set("id", make_id(op)); r.set("method", Value::str("info")); send_value(ci, r, evs); return; }
		case AUTH: {
			Value p = Value::obj();
			std::string user = sc.users.empty() ? "nobody" : pick(sc.users, op.a);
			std::string pw = sc.passwords.empty() ? "nopw" : pick(sc.passwords, op.a);
			{ auto it = m.users.find(user); if (it != m.users.end() && op.b % 4 != 3) pw = it->second.password; } // the password in force (3: the one from the original file)
			if (op.b % 4 == 1) pw = "X" + pw; // differs in the first byte: DES crypt() only looks at 8 bytes
			if (op.b % 4 == 2) user += "-unknown";
			if (!op.s.empty()) pw = op.s;
			p.set("user", Value::str(user)); p.set("password", Value::str(pw));
			send_value(ci, request(op, "authenticate", p), evs); return;
		}
		case PASSWD: {
			Value p = Value::obj();
			std::string user = sc.users.empty() ? "nobody" : pick(sc.users, op.a);
			p.set("user", Value::str(user)); p.set("password", Value::str("newpw-" + std::to_string(op.b) + "-" + std::to_string(step_no)));
			send_value(ci, request(op, "passwd", p), evs); return;
		}
		case WPLAN: {
			auto &wp = k.conns[c.kc].wplan;
			for (int x : op.v) { simk::WriteDecision d; int kind = ((x % 4) + 4) % 4; d.kind = kind; d.n = (size_t)((x / 4) % 700 + 700) % 700; d.err = EPIPE; if (kind == simk::W_ERR) d.err = (x / 4) % 2 ? ECONNRESET : EPIPE; wp.push_back(d); }
			vd.labels.insert("wplan");
			c.faulty = true; c.unchecked = true;
			return;
		}
		case DRAIN: k.drain(c.kc); return;
		case CHUNK: { auto &cp = k.conns[c.kc].chunk_plan; for (int x : op.v) cp.push_back((size_t)(x < 1 ? 1 : x)); return; }
		case JUNK: k.conns[c.kc].junk = ((op.a % 7) + 7) % 7; return;
		case RAWREQ: {
			static const std::vector<std::string> ids = {"1", "0", "-7", "2147483647", "2147483648", "-2147483649", "9007199254740992", "1.5", "-0.25", "1e3", "1e10", "1E+2", "0.0",
			    "\"\"", "\"abc\"", "\"" + std::string(200, 'i') + "\"", "\"\\u00e9\\n\\\"q\\\"\"", "\"123\"", "null", "true", "false", "{}", "[1]", "", "4294967296", "3000000000.5", "\"1\""};
			const std::string &idt = pick(ids, op.b);
			Value r = Value::obj();
			int shape = ((op.a % 26) + 26) % 26;
			if (shape == 20) r.set("jsonrpc", Value::str("2.0"));
			if (!idt.empty()) r.set("id", parse_or_null(idt));
			Value never = Value::obj(); never.set("path", Value::str("never/" + std::to_string(op.c % 3)));
			auto meth = [&](const char *m) { r.set("method", Value::str(m)); };
			switch (shape) {
			case 0: meth("info"); break;
			case 1: meth("info"); r.set("params", parse_or_null(pick(values(), op.c))); break;
			case 2: meth("foo"); r.set("params", Value::obj()); break;
			case 3: r.set("method", Value::num(5)); break;
			case 4: r.set("method", Value::null()); break;
			case 5: meth(""); break;
			case 6: meth("get"); r.set("params", Value::obj()); break;
			case 7: meth("get"); r.set("params", Value::obj()); r.set("params", Value::obj()); break;
			case 8: { meth("config"); Value p = Value::obj(); p.set("name", Value::str("n" + std::to_string(op.c))); r.set("params", p); break; }
			case 9: { meth("config"); Value p = Value::obj(); p.set("name", Value::num(5)); r.set("params", p); break; }
			case 10: meth("remove"); r.set("params", never); break;
			case 11: meth("change"); never.set("value", Value::num(1)); r.set("params", never); break;
			case 12: meth("set"); never.set("value", Value::num(1)); r.set("params", never); break;
			case 13: meth("call"); r.set("params", never); break;
			case 14: { meth("unfetch"); Value p = Value::obj(); p.set("id", Value::str("never-fetched")); r.set("params", p); break; }
			case 15: { meth("authenticate"); Value p = Value::obj(); p.set("user", Value::str("u")); p.set("password", Value::str("p")); r.set("params", p); break; }
			case 16: { meth("passwd"); Value p = Value::obj(); p.set("user", Value::str("u")); p.set("password", Value::str("p")); r.set("params", p); break; }
			case 17: meth("get"); break;
			case 18: meth("get"); r.set("params", Value::arr()); break;
			case 19: meth("info"); meth("info"); break;
			case 20: meth("info"); { Value a = Value::arr(); a.push(Value::num(1)); r.set("foo", a); } break;
			case 21: break; // neither request nor response
			case 22: r.set("result", parse_or_null(pick(values(), op.c))); break; // unsolicited response object
			case 23: { Value e = Value::obj(); e.set("code", Value::num(-1)); r.set("error", e); break; }
			case 24: meth("fetch"); r.set("params", Value::obj()); break; // no fetch id
			default: meth("add"); r.set("params", Value::str("not an object")); break;
			}
			if (shape >= 22 && shape <= 23) vd.labels.insert("incoming-response-object");
			vd.labels.insert(idt.empty() ? "id:absent" : idt[0] == '"' ? "id:string" : (idt[0] == '-' || isdigit((unsigned char)idt[0])) ? "id:number" : "id:other-type");
			send_value(ci, r, evs);
			return;
		}
		case BATCH: return; // handled in step()
		case MUTREQ: {
			static const char *meths[] = {"add", "remove", "change", "set", "call", "fetch", "unfetch", "get", "config"};
			int mi = ((op.a % 9) + 9) % 9;
			Value p = Value::obj();
			if (mi <= 4) p.set("path", Value::str(pick(paths(), op.b)));
			if (mi == 0 || mi == 2 || mi == 3) p.set("value", parse_or_null(pick(values(), op.d)));
			if (mi == 5 || mi == 6) p.set("id", fetch_id_value(((op.b % 6) + 6) % 6));
			if (mi == 8) p.set("name", Value::str("n"));
			int mut = ((op.c % 12) + 12) % 12;
			auto drop = [&](const char *k) { for (size_t i = 0; i < p.o.size(); i++) if (p.o[i].first == k) { p.o.erase(p.o.begin() + i); break; } };
			auto repl = [&](const char *k, Value v) { drop(k); p.set(k, v); };
			Value params = p; bool no_params = false;
			switch (mut) {
			case 1: drop("path"); drop("id"); break;
			case 2: if (mi <= 4) repl("path", Value::num(7)); else repl("id", Value::boolean(true)); break;
			case 3: drop("value"); break;
			case 4: p.set("fetchOnly", Value::str("yes")); break;
			case 5: p.set("timeout", Value::str("1")); break;
			case 6: no_params = true; break;
			case 7: params = Value::arr(); break;
			case 8: p.set("access", Value::num(5)); break;
			case 9: { Value a = Value::obj(); a.set("fetchGroups", Value::str("all")); p.set("access", a); break; }
			case 10: params = Value::null(); break;
			case 11: p.set("timeout", Value::num(0.0001)); break;
			default: break;
			}
			if (mut != 7 && mut != 10) params = p;
			Value r = Value::obj();
			if (op.idm != ID_NONE || mi == 6) r.set("id", make_id(op)); // (an unfetch always carries an id: its response delimits the fetch's life)
			r.set("method", Value::str(meths[mi]));
			if (!no_params) r.set("params", params);
			if (mi == 5) open_keys[{ci, js::dump(fetch_id_value(((op.b % 6) + 6) % 6))}]++;
			if (mi == 6) { const Value *fid = params.is_obj() ? params.get("id") : nullptr; if (fid && !no_params) unfetch_reqs[{ci, js::dump(*r.get("id"))}] = js::dump(*fid); } // a mutated unfetch that still succeeds ends the fetch like any other
			send_value(ci, r, evs);
			vd.labels.insert("mutated-request");
			return;
		}
		case WSFRAME: {
			codec::WsFrame f; f.opcode = op.a & 0xF; f.fin = op.b & 1; f.masked = (op.b >> 1) & 1; f.rsv = (op.b >> 2) & 7; f.lenenc = ((op.c % 3) + 3) % 3; f.payload = op.s;
			uint32_t mk = (uint32_t)(op.d * 2654435761u + 77);
			f.mask[0] = mk; f.mask[1] = mk >> 8; f.mask[2] = mk >> 16; f.mask[3] = mk >> 24;
			if (!c.ws) { vd.stat["noop"]++; return; }
			deliver(c.kc, codec::ws_encode(f));
			{
				bool control = f.opcode >= 8;
				bool reserved = (f.opcode >= 3 && f.opcode <= 7) || f.opcode >= 0xB;
				ModelEvent e; e.conn = ci; e.seq = evs.size(); e.k = ModelEvent::INVALID;
				bool violation = !f.masked || f.rsv != 0 || reserved || (control && !f.fin) || (control && f.payload.size() > 125);
				// statuses RFC 6455 assigns to what this frame does wrong (several may apply: either is fine)
				std::set<int> st;
				if (!f.masked) st.insert(1002);
				if (f.rsv != 0) st.insert(1002);
				if (reserved) st.insert(1002);
				if (control && !f.fin) st.insert(1002);
				if (control && f.payload.size() > 125) st.insert(1002);
				if (f.opcode == 8 && st.empty()) {
					if (f.payload.size() == 1) st.insert(1002);
					if (f.payload.size() >= 2) {
						int code = ((unsigned char)f.payload[0] << 8) | (unsigned char)f.payload[1];
						bool okcode = (code >= 1000 && code <= 1003) || (code >= 1007 && code <= 1011) || (code >= 3000 && code <= 4999);
						if (code >= 1012 && code <= 1014) okcode = true; // registered later than RFC 6455: not judged
						if (!okcode) st.insert(1002);
						if (f.payload.size() > 2 && !utf8_ok(f.payload.substr(2))) st.insert(1007);
						if (code >= 1012 && code <= 1014) st.insert(-1);
					}
					if (st.empty()) st.insert(-1); // a valid close is answered with a close frame of whatever status
				}
				if (f.payload.size() > max_message_size) { st.clear(); st.insert(-1); }
				if (!violation && f.opcode != 8 && (f.opcode == 2 || !f.fin || f.opcode == 0)) st.insert(-1); // fragmented/binary data: processed or refused with a close frame
				if (!violation && f.opcode == 1 && f.fin) { Value tmpv; if (!js::parse(f.payload, tmpv) || f.payload.size() > max_message_size) st.insert(-1); }
				if (!st.empty() && !c.expect_close_armed) { c.expect_close = st; c.expect_close_armed = true; }
				if (!violation && f.opcode == 9 && st.empty()) c.expect_pongs.push_back(f.payload);
				if (violation) { evs.push_back(e); vd.labels.insert("ws:protocol-violation"); }
				else if (f.opcode == 8) { evs.push_back(e); vd.labels.insert("ws:close-frame"); }
				else if (f.opcode == 9 || f.opcode == 0xA) vd.labels.insert("ws:ping-pong");
				else if (f.opcode == 2 || !f.fin || f.opcode == 0) { evs.push_back(e); vd.labels.insert("ws:fragment-or-binary"); } // refused with a close frame
				else { if (js::parse(f.payload, e.msg)) e.k = ModelEvent::MESSAGE; if (f.payload.size() > max_message_size) e.k = ModelEvent::INVALID; evs.push_back(e); }
			}
			return;
		}
		default: return;
		}
	}

	// ------------------------------------------------------------------ decoding
	void decode(int ci)
	{
		CConn &c = cc[ci];
		if (c.decode_failed) return;
		const std::string &out = simk::K().conns[c.kc].out;
		if (c.ws) {
			if (!c.http_done) {
				c.http = codec::parse_http_head(out);
				if (!c.http.complete) return;
				c.http_done = true; c.dec_pos = c.http.length;
				if (c.http.status != 101) { c.dec_pos = out.size(); return; }
			}
			if (c.http.status != 101) return;
			std::vector<codec::WsFrame> fr;
			if (!codec::ws_decode_all(out, c.dec_pos, fr)) { c.decode_failed = true; vd.add("output/undecodable-frame", "conn " + std::to_string(ci)); return; }
			for (auto &f : fr) {
				if (f.masked || f.rsv || !f.fin || !f.minimal) vd.add("C12/server-frame", "conn " + std::to_string(ci) + " masked/rsv/fin/minimal violated");
				if (f.opcode == 1) {
					Value v; std::string err;
					if (!js::parse(f.payload, v, &err)) { c.decode_failed = true; vd.add("output/invalid-json", "conn " + std::to_string(ci) + ": " + err + ": " + f.payload.substr(0, 200)); return; }
					c.msgs.push_back(v); c.raw.push_back(f.payload);
					if (trace()) fprintf(stderr, "TRACE step %d < conn %d: %s\n", (int)step_no, ci, f.payload.substr(0, 400).c_str());
				} else { c.ctrl.push_back(f); if (trace()) fprintf(stderr, "TRACE step %d < conn %d: ws control opcode %d\n", (int)step_no, ci, f.opcode); }
			}
			return;
		}
		while (out.size() - c.dec_pos >= 4) {
			uint32_t n = ((uint32_t)(uint8_t)out[c.dec_pos] << 24) | ((uint32_t)(uint8_t)out[c.dec_pos + 1] << 16) | ((uint32_t)(uint8_t)out[c.dec_pos + 2] << 8) | (uint32_t)(uint8_t)out[c.dec_pos + 3];
			if (n > (1u << 24)) { c.decode_failed = true; vd.add("output/bad-length-prefix", "conn " + std::to_string(ci)); return; }
			if (out.size() - c.dec_pos - 4 < n) break;
			std::string txt = out.substr(c.dec_pos + 4, n);
			c.dec_pos += 4 + n;
			Value v; std::string err;
			if (!js::parse(txt, v, &err)) { c.decode_failed = true; vd.add("output/invalid-json", "conn " + std::to_string(ci) + ": " + err + ": " + txt.substr(0, 200)); return; }
			c.msgs.push_back(v); c.raw.push_back(txt);
			if (trace()) fprintf(stderr, "TRACE step %d < conn %d: %s\n", (int)step_no, ci, txt.substr(0, 400).c_str());
		}
	}
	static bool trace() { static bool t = getenv("VERIF_TRACE") != nullptr; return t; }

	// ------------------------------------------------------------------ model ordering of one step
	void apply_model(std::vector<ModelEvent> &evs)
	{
		simk::Kernel &k = simk::K();
		// rank of each connection = position of its descriptor (or of its listener) in the event order
		std::vector<int> ready;
		for (size_t i = 0; i < k.fds.size(); i++) if (k.fds[i].open && k.fds[i].registered && k.fds[i].in_ready) ready.push_back((int)i);
		std::sort(ready.begin(), ready.end(), [&](int a, int b) { return k.fds[a].ready_seq < k.fds[b].ready_seq; });
		if (k.pick) k.pick(ready);
		auto rank = [&](const ModelEvent &e) -> long {
			if (e.conn < 0) return 1000000; // ADVANCE: timers are armed by earlier steps; keep op order
			const simk::Conn &kc = k.conns[cc[e.conn].kc];
			int fd = kc.fd;
			long sub = 0;
			if (fd < 0) { fd = k.listener_for(kc.ep); if (fd >= 0) { long pos = 0; for (int id : k.fds[fd].backlog) { if (id == cc[e.conn].kc) sub = pos; pos++; } } }
			for (size_t i = 0; i < ready.size(); i++) if (ready[i] == fd) return (long)i * 1000 + sub;
			return 999999;
		};
		{
			// clock advances first (primary order of a race step; the alternative puts them last), the rest in event order
			std::vector<ModelEvent> adv, rest;
			for (auto &e : evs) {
				if (e.k != ModelEvent::ADVANCE) { rest.push_back(e); continue; }
				if (adv.empty()) adv.push_back(e); else adv[0].ns += e.ns; // several clock moves in one step are one: all their expiries share a batch
			}
			std::stable_sort(rest.begin(), rest.end(), [&](const ModelEvent &a, const ModelEvent &b) {
				long ra = rank(a), rb = rank(b);
				if (ra != rb) return ra < rb;
				return a.seq < b.seq;
			});
			evs = adv; evs.insert(evs.end(), rest.begin(), rest.end());
		}
		// a hang-up or reset is reported as an error event: the daemon releases the connection without
		// reading what arrived together with it (the kernel discards it on reset anyway)
		{
			std::set<int> abrupt;
			for (auto &e : evs) if (e.k == ModelEvent::ENDED && e.endkind != simk::END_EOF) abrupt.insert(e.conn);
			std::vector<ModelEvent> kept;
			for (auto &e : evs) { if ((e.k == ModelEvent::MESSAGE || e.k == ModelEvent::INVALID) && abrupt.count(e.conn)) { vd.stat["discarded_by_abrupt_end"]++; continue; } kept.push_back(e); }
			evs = kept;
		}
		exp = model::StepExp(); have_alt = false; step_has_alt_flag = false;
		step_model_events = 0;
		first_seq_of_step = m.next_seq; concluded_in_step.clear();
		model::Model before;
		bool single = false;
		{
			size_t n = 0; for (auto &e : evs) if (e.k == ModelEvent::MESSAGE || e.k == ModelEvent::INVALID) n++;
			single = n == 1 && evs.size() == 1;
			if (single) before = m;
		}
		race_alt = false;
		{
			size_t adv = 0, others = 0;
			for (auto &e : evs) { if (e.k == ModelEvent::ADVANCE) adv++; else if (e.k != ModelEvent::CONNECTED) others++; }
			if (opt.allow_timer_join && adv >= 1 && others >= 1) {
				// alternative order: expiries processed after everything else (primary: in op order)
				race_alt = true; alt_model = m; alt_exp = model::StepExp();
				std::vector<ModelEvent> reordered;
				for (auto &e : evs) if (e.k != ModelEvent::ADVANCE) reordered.push_back(e);
				for (auto &e : evs) if (e.k == ModelEvent::ADVANCE) reordered.push_back(e);
				for (auto &e : evs) if (e.k == ModelEvent::ADVANCE) alt_model.clock(e.ns); // the clock has moved before anything is processed
				for (auto &e : reordered) {
					switch (e.k) {
					case ModelEvent::MESSAGE: alt_model.on_message(e.conn, e.msg, alt_exp); break;
					case ModelEvent::INVALID: if (alt_model.peer(e.conn).alive) alt_model.drop(e.conn, alt_exp); break;
					case ModelEvent::ENDED: alt_model.drop(e.conn, alt_exp); break;
					case ModelEvent::ADVANCE: alt_model.expire(alt_exp); break;
					default: break;
					}
				}
				vd.labels.insert("timer-race-step");
			}
		}
		for (auto &e : evs) {
			switch (e.k) {
			case ModelEvent::CONNECTED: cc[e.conn].local = e.local; break; // the model peer exists once the daemon accepted the connection (see judge_step)
			case ModelEvent::MESSAGE: step_model_events++; if (!m.on_message(e.conn, e.msg, exp)) cc[e.conn].model_dropped = true; break;
			case ModelEvent::INVALID: step_model_events++; if (m.peer(e.conn).alive) { m.drop(e.conn, exp); cc[e.conn].model_dropped = true; } break;
			case ModelEvent::ENDED: m.drop(e.conn, exp); break;
			case ModelEvent::ADVANCE: m.advance(e.ns, exp); break;
			}
		}
		{
			// C11 tolerance: where a delivery of this step went to a faulty peer, the requester may see an error that
			// reports the failed delivery instead of the result; the request must still have taken effect.
			bool touches_faulty = false;
			for (auto &c : exp.by_conn) if ((size_t)c.first < cc.size() && cc[c.first].faulty && !c.second.empty()) touches_faulty = true;
			if (touches_faulty) {
				vd.stat["steps_touching_faulty"]++;
				for (auto &c : exp.by_conn) for (auto &g : c.second) for (auto &x : g) {
					if (x.k == model::Exp::RESULT && !x.forwarded) x.k = model::Exp::EITHER;
					if (x.k == model::Exp::ROUTED && cc[c.first].faulty) exp.alt_refusal = true; // routed request that cannot be delivered: immediate error is fine
				}
			}
		}
		if (exp.alt_refusal) {
			step_has_alt_flag = true;
			if (single) {
				have_alt = true; alt_model = before; alt_exp = model::StepExp();
				for (auto &e : evs) if (e.k == ModelEvent::MESSAGE) {
					alt_conn = e.conn;
					const Value *rq = &e.msg;
					if (rq->is_arr()) { if (rq->a.size() == 1) rq = &rq->a[0]; else { have_alt = false; break; } } // a batch of one is that one request; in a longer batch any member may be the refused one: not decidable here
					const Value *id = rq->get("id");
					if (model::valid_id(id)) alt_exp.add(e.conn, model::Model::resp(model::Exp::ERROR, *id, "refused at a resource limit"));
				}
			}
		}
	}

	// match the new messages of every connection against `x`; returns description of first mismatch
	bool match_step(model::StepExp &x, std::string &rule, std::string &detail, model::Model &mm, bool commit)
	{
		std::set<int> conns;
		for (auto &c : x.by_conn) conns.insert(c.first);
		for (size_t i = 0; i < cc.size(); i++) if (cc[i].checked < cc[i].msgs.size()) conns.insert((int)i);
		std::vector<std::pair<uint64_t, std::string>> learned;
		for (int ci : conns) {
			CConn &c = cc[ci];
			if (probe_conn >= 0 && cc[ci].is_probe) continue;
			bool ended = c.client_ended || c.model_dropped || c.unchecked;
			std::vector<model::Group> groups;
			auto it = x.by_conn.find(ci);
			if (it != x.by_conn.end()) groups = it->second;
			size_t pos = c.checked;
			if (ended) { continue; } // a connection that ends in this step is judged by the end-specific oracles only
			for (auto &g : groups) {
				if (c.msgs.size() - pos < g.size()) {
					rule = std::string("model/missing-") + kname(g[0]); detail = "conn " + std::to_string(ci) + " expected " + describe(g[0]) + " but only " + std::to_string(c.msgs.size() - pos) + " message(s) arrived";
					return false;
				}
				std::vector<bool> used(g.size(), false);
				for (size_t j = 0; j < g.size(); j++) {
					const Value &act = c.msgs[pos + j];
					bool ok = false; std::string why, lastwhy;
					for (size_t e = 0; e < g.size(); e++) {
						if (used[e]) continue;
						std::string rid;
						if (model::matches(g[e], act, &rid, &why)) { used[e] = true; ok = true; if (g[e].k == model::Exp::ROUTED) learned.push_back({g[e].inflight_seq, rid}); break; }
						lastwhy = why;
					}
					if (!ok) {
						rule = std::string("model/mismatch-") + kname(g[0]); detail = "conn " + std::to_string(ci) + " got " + c.raw[pos + j].substr(0, 300) + " while expecting " + describe(g[0]) + " (" + lastwhy + ")";
						return false;
					}
				}
				pos += g.size();
			}
			if (pos < c.msgs.size()) {
				rule = "model/unexpected-message"; detail = "conn " + std::to_string(ci) + " got " + c.raw[pos].substr(0, 300) + " which nothing entitles it to";
				return false;
			}
		}
		if (commit) {
			for (auto &l : learned) {
				for (auto &r : mm.inflight) if (r.seq == l.first) {
					for (auto &o : mm.inflight) if (&o != &r && o.rid == l.second) { rule = "C03/rid-not-unique"; detail = l.second; return false; }
					r.rid = l.second;
				}
			}
		}
		return true;
	}
	static const char *kname(const model::Exp &e) { switch (e.k) { case model::Exp::NOTIFY: return "notification"; case model::Exp::ROUTED: return "routed"; default: return "response"; } }
	static std::string describe(const model::Exp &e)
	{
		switch (e.k) {
		case model::Exp::NOTIFY: return "notification " + e.event + " '" + e.path + "' for fetch " + js::dump(e.fetch_id);
		case model::Exp::ROUTED: return "routed request for '" + e.path + "'";
		case model::Exp::RESULT: return "result response id " + js::dump(e.id) + " [" + e.why + "]";
		case model::Exp::ERROR: return "error response id " + js::dump(e.id) + " [" + e.why + "]";
		default: return "response id " + js::dump(e.id) + " [" + e.why + "]";
		}
	}

	// routed request ids embed a counter and a heap address: rename them by order of appearance
	std::map<std::string, std::string> rid_names;
	std::string canon(const std::string &raw)
	{
		std::string out = raw;
		size_t pos = 0;
		while ((pos = out.find("_0x", pos)) != std::string::npos) {
			size_t q = out.rfind('"', pos), e = out.find('"', pos);
			if (q == std::string::npos || e == std::string::npos) break;
			std::string rid = out.substr(q + 1, e - q - 1);
			auto it = rid_names.find(rid);
			if (it == rid_names.end()) it = rid_names.emplace(rid, "RID" + std::to_string(rid_names.size())).first;
			out.replace(q + 1, e - q - 1, it->second);
			pos = q + 1 + it->second.size();
		}
		return out;
	}

	// C10. G = frames the daemon generated, as seen by the kernel: every writev() with more than one buffer passes the pending
	// bytes first and the parts of a new frame after them. A = bytes the kernel accepted. A must be the concatenation, in order,
	// of whole frames of G (a frame may be missing only as a whole), optionally followed by a proper prefix of a later frame if
	// the connection was closed afterwards or the daemon still holds unsent bytes.
	// A connection that the daemon keeps open has received a response for every request with an id it sent (requests still routed
	// to an owner excepted): losing a response under back-pressure and carrying on is not an option - either the response is
	// queued, or the connection ends.
	// After everything (and after the injected fault, if any): whatever a fresh subscriber is told exists must be something a request
	// asked for - a state keeps being a state with a value some add/change carried, a method keeps being a method. A request that
	// failed half way must not leave an element in a shape nobody asked for.
	void census_judge()
	{
		simk::Kernel &k = simk::K();
		decode(census_conn);
		CConn &c = cc[census_conn];
		bool answered = false;
		for (auto &mm : c.msgs) { const Value *id = mm.get("id"); if (id && id->is_str() && id->s == "census" && mm.has("result")) answered = true; }
		if (!answered || k.alloc_failed_seen > census_failures_seen) { vd.stat["census_inconclusive"]++; return; } // the fault hit the census itself
		for (auto &mm : c.msgs) {
			const Value *meth = mm.get("method"), *p = mm.get("params");
			if (!meth || mm.has("id") || !p || !p->is_obj()) continue;
			const Value *path = p->get("path"), *ev = p->get("event");
			if (!path || !path->is_str() || !ev || !ev->is_str() || ev->s != "add") continue;
			auto it = asked.find(path->s);
			std::string shape = p->has("value") ? js::dump(*p->get("value")) : std::string("<method>");
			if (it == asked.end()) { vd.add("C15/census-unknown-element", "'" + path->s + "' exists although no add request ever named it"); continue; }
			bool ok = it->second.count(shape) > 0;
			if (!ok && p->has("value")) for (auto &a : it->second) { Value av; if (a != "<method>" && js::parse(a, av) && js::equal(av, *p->get("value"))) ok = true; }
			if (!ok) vd.add("C15/census-element-in-unrequested-shape", "'" + path->s + "' is reported as " + (p->has("value") ? "state with value " + shape.substr(0, 80) : std::string("method (no value)")) + " but no add/change request asked for that");
			vd.stat["census_elements"]++;
		}
		vd.stat["census_done"]++;
	}

	static std::string id_key(const Value &id) { if (id.is_num()) { char b[40]; snprintf(b, sizeof b, "%.12g", id.d); return b; } return js::dump(id); } // numbers: same tolerance as js::equal (cJSON prints 15 significant digits)
	void gap_judge()
	{
		simk::Kernel &k = simk::K();
		for (size_t ci = 0; ci < cc.size(); ci++) {
			CConn &c = cc[ci];
			const simk::Conn &kc = k.conns[c.kc];
			if (c.is_probe || c.client_ended || kc.daemon_closed || !kc.accepted || c.poisoned || c.model_dropped || c.decode_failed) continue;
			if (c.ws && (!c.handshake_valid || !c.http_done || c.http.status != 101)) continue;
			// a socket on which a write failed outright is dead for the daemon whatever happens next; only slow readers are judged
			bool write_error = false; for (auto &w : kc.writes) if (w.result < 0 && w.result != -EAGAIN) write_error = true;
			if (write_error) continue;
			decode((int)ci);
			std::map<std::string, long> got;
			for (auto &msg : c.msgs) if (msg.is_obj() && !msg.has("method") && msg.has("id")) got[id_key(*msg.get("id"))]++;
			for (auto &s : direct_ids) {
				if (s.first.first != (int)ci) continue;
				long have = got.count(s.first.second) ? got[s.first.second] : 0;
				if (have < s.second) { vd.add("C02/response-lost-on-open-connection", "conn " + std::to_string(ci) + " id " + s.first.second + ": " + std::to_string(s.second) + " request(s) answered while they are processed, " + std::to_string(have) + " response(s); the connection is open, its reader caught up and the daemon is idle"); return; }
			}
			vd.stat["gap_checked_conns"]++;
			if (c.faulty) vd.stat["gap_checked_slow_conns"]++;
		}
	}

	// C10, "later writability events complete the frame": the daemon is idle; a connection whose socket takes bytes again (the
	// writability edge was delivered when the block ended) must not still have a queued remainder of its last write.
	void flush_judge()
	{
		simk::Kernel &k = simk::K();
		for (size_t ci = 0; ci < cc.size(); ci++) {
			const simk::Conn &kc = k.conns[cc[ci].kc];
			if (!kc.accepted || kc.daemon_closed || kc.end_kind != simk::END_NONE || kc.writes.empty() || kc.blocked) continue;
			const simk::WriteCall &w = kc.writes.back();
			size_t total = 0; for (auto &b : w.iov) total += b.size();
			bool pending = w.result == -EAGAIN || (w.result >= 0 && (size_t)w.result < total);
			if (pending) { vd.add("C10/queued-bytes-not-flushed", "conn " + std::to_string(ci) + ": the socket is writable again and the daemon is idle, but " + std::to_string(total - (w.result > 0 ? (size_t)w.result : 0)) + " queued bytes of the last write were never sent"); return; }
		}
	}

	void framing_judge()
	{
		simk::Kernel &k = simk::K();
		for (size_t ci = 0; ci < cc.size(); ci++) {
			const simk::Conn &kc = k.conns[cc[ci].kc];
			if (!kc.accepted) continue;
			std::vector<std::string> G;
			std::map<uint64_t, int> calls_per_iter; int worst = 0;
			bool pending_left = false;
			for (auto &w : kc.writes) {
				if (w.iov.size() >= 2) { std::string f; for (size_t i = 1; i < w.iov.size(); i++) f += w.iov[i]; if (!f.empty()) G.push_back(f); }
				size_t total = 0; for (auto &b : w.iov) total += b.size();
				pending_left = !(w.result >= 0 && (size_t)w.result == total);
				int n = ++calls_per_iter[w.loop_iter]; if (n > worst) worst = n;
			}
			const std::string &A = kc.out;
			vd.stat["frames_generated"] += (long)G.size();
			// reach[p] = smallest number of leading frames of G that can produce exactly A[0..p)
			std::map<size_t, size_t> reach; reach[0] = 0;
			for (size_t i = 0; i < G.size(); i++) {
				std::vector<std::pair<size_t, size_t>> add;
				for (auto &r : reach) if (r.second <= i && A.compare(r.first, G[i].size(), G[i]) == 0 && r.first + G[i].size() <= A.size()) add.push_back({r.first + G[i].size(), i + 1});
				for (auto &a : add) { auto it = reach.find(a.first); if (it == reach.end() || it->second > a.second) reach[a.first] = a.second; }
			}
			bool ok = reach.count(A.size()) > 0;
			if (!ok) {
				// a proper prefix of a later frame at the very end is tolerated if nothing can follow it or the rest is still queued
				bool may_have_tail = kc.daemon_closed || pending_left;
				for (auto &r : reach) {
					if (!may_have_tail) break;
					std::string tail = A.substr(r.first);
					for (size_t j = r.second; j < G.size() && !ok; j++) if (tail.size() < G[j].size() && G[j].compare(0, tail.size(), tail) == 0) ok = true;
					if (ok) break;
				}
			}
			if (!ok) {
				size_t best = 0; for (auto &r : reach) best = std::max(best, r.first);
				vd.add("C10/stream-not-whole-frames", "conn " + std::to_string(ci) + ": after " + std::to_string(best) + " bytes of whole frames the accepted stream continues with " + tohex(A.substr(best, 24)) + " (" + std::to_string(A.size()) + " bytes accepted, " + std::to_string(G.size()) + " frames generated, closed=" + std::to_string(kc.daemon_closed) + ")");
			}
			if (worst > 64) vd.add("C10/spinning", "conn " + std::to_string(ci) + ": " + std::to_string(worst) + " writev calls in one event-loop iteration");
			bool partial_seen = false; for (auto &w : kc.writes) { size_t total = 0; for (auto &b : w.iov) total += b.size(); if (w.result > 0 && (size_t)w.result < total) partial_seen = true; }
			if (partial_seen) vd.stat["conns_with_partial_write"]++;
		}
	}

	static bool utf8_ok(const std::string &s)
	{
		size_t i = 0, n = s.size();
		while (i < n) {
			unsigned char c = s[i];
			if (c < 0x80) { i++; continue; }
			int len; uint32_t cp;
			if (c >= 0xC2 && c <= 0xDF) { len = 2; cp = c & 0x1F; } else if (c >= 0xE0 && c <= 0xEF) { len = 3; cp = c & 0x0F; } else if (c >= 0xF0 && c <= 0xF4) { len = 4; cp = c & 0x07; } else return false;
			if (i + len > n) return false;
			for (int k = 1; k < len; k++) { unsigned char d = s[i + k]; if ((d & 0xC0) != 0x80) return false; cp = (cp << 6) | (d & 0x3F); }
			if ((len == 3 && cp < 0x800) || (len == 4 && cp < 0x10000) || cp > 0x10FFFF || (cp >= 0xD800 && cp <= 0xDFFF)) return false;
			i += len;
		}
		return true;
	}

	// C12/C13: what the HTTP/WebSocket endpoint itself answers
	void ws_judge()
	{
		simk::Kernel &k = simk::K();
		for (size_t ci = 0; ci < cc.size(); ci++) {
			CConn &c = cc[ci];
			if (!c.ws || c.unchecked) continue;
			const simk::Conn &kc = k.conns[c.kc];
			if (!kc.accepted) continue;
			std::string id = "conn " + std::to_string(ci);
			if (!c.handshake_valid) {
				if (c.http_done && c.http.status == 101) vd.add("C13/upgrade-accepted", id + ": 101 for a request that is not a valid WebSocket upgrade");
				else if (c.http_done && (c.http.status < 400 || c.http.status > 599)) vd.add("C13/status", id + ": status " + std::to_string(c.http.status));
				if (!c.http_done && !kc.out.empty() && kc.out.compare(0, 5, "HTTP/") != 0) vd.add("C13/garbage-answer", id + ": " + tohex(kc.out.substr(0, 40)));
				if (!c.hs_truncated && !kc.daemon_closed) vd.add("C13/not-closed", id + ": connection stays open after a request that is not a valid upgrade");
				if (c.hs_truncated && c.client_ended && !kc.daemon_closed) vd.add("C13/not-closed", id + ": half-sent request, client gone, descriptor still open");
				continue;
			}
			if (!c.http_done) { if (!kc.daemon_closed || !c.client_ended) vd.add("C12/no-upgrade-response", id + ": valid upgrade got no complete response"); continue; }
			if (c.http.status != 101) { vd.add("C12/upgrade-refused", id + ": status " + std::to_string(c.http.status) + " for a valid upgrade"); continue; }
			if (c.ctrl_checked == 0 && !c.ws_key.empty()) {
				if (c.http.header("Sec-WebSocket-Accept") != codec::ws_accept(c.ws_key)) vd.add("C12/accept-digest", id + ": got '" + c.http.header("Sec-WebSocket-Accept") + "' want '" + codec::ws_accept(c.ws_key) + "'");
				if (folded_eq(c.http.header("Upgrade"), "websocket") == false) vd.add("C12/upgrade-header", id);
				if (c.http.header("Sec-WebSocket-Protocol") != "jet") vd.add("C12/protocol-header", id + ": '" + c.http.header("Sec-WebSocket-Protocol") + "'");
			}
			// control frames received since the last look
			for (; c.ctrl_checked < c.ctrl.size(); c.ctrl_checked++) {
				const codec::WsFrame &f = c.ctrl[c.ctrl_checked];
				if (f.opcode == 0xA) {
					if (c.expect_pongs.empty()) vd.add("C12/unsolicited-pong", id);
					else { if (c.expect_pongs.front() != f.payload) vd.add("C12/pong-payload", id + ": pong payload differs from ping payload"); c.expect_pongs.pop_front(); }
				} else if (f.opcode == 8) {
					int code = f.payload.size() >= 2 ? (((unsigned char)f.payload[0] << 8) | (unsigned char)f.payload[1]) : 0;
					if (c.expect_close_armed && !c.expect_close.count(-1) && !c.expect_close.count(code)) {
						std::string w; for (int x : c.expect_close) w += std::to_string(x) + " ";
						vd.add("C12/close-status", id + ": close frame with status " + std::to_string(code) + ", expected " + w);
					}
					if (!c.expect_close_armed && !c.client_ended && !c.model_dropped) vd.add("C12/unexpected-close-frame", id + ": status " + std::to_string(code));
					c.expect_close_armed = false; c.expect_close.clear();
					c.model_dropped = true;
				} else vd.add("C12/server-opcode", id + ": server sent opcode " + std::to_string(f.opcode));
			}
			if (c.expect_close_armed && !c.expect_close.count(-1)) vd.add("C12/no-close-frame", id + ": protocol violation was not answered with a close frame");
			if (c.expect_close_armed && c.expect_close.count(-1) && kc.daemon_closed) vd.add("C12/closed-without-close-frame", id + ": connection ended without a close frame");
			if (!c.expect_pongs.empty() && !kc.daemon_closed && !c.client_ended) vd.add("C12/missing-pong", id + ": ping not answered");
			if (kc.daemon_closed) { c.expect_pongs.clear(); c.expect_close_armed = false; }
		}
	}
	static bool folded_eq(const std::string &a, const std::string &b) { return model::folded(a) == model::folded(b); }

	void replica_update()
	{
		// feed every not yet judged message that is a notification for a fetch of that connection
		for (size_t ci = 0; ci < cc.size(); ci++) {
			CConn &c = cc[ci];
			if (c.unchecked) continue; // a peer that did not accept everything written to it is outside the replica guarantee
			for (size_t i = c.checked; i < c.msgs.size(); i++) {
				const Value &msg = c.msgs[i];
				const Value *meth = msg.get("method"), *p = msg.get("params");
				if (!meth && msg.has("result") && msg.has("id")) {
					auto u = unfetch_reqs.find({(int)ci, js::dump(*msg.get("id"))});
					if (u != unfetch_reqs.end()) { replicas.erase({(int)ci, u->second}); open_keys[{(int)ci, u->second}]--; unfetch_reqs.erase(u); }
					continue;
				}
				if (!meth && msg.has("error") && msg.has("id")) { // a refused unfetch ends nothing (and its request id may be used again later)
					auto u = unfetch_reqs.find({(int)ci, js::dump(*msg.get("id"))});
					if (u != unfetch_reqs.end()) unfetch_reqs.erase(u);
					continue;
				}
				if (!meth || msg.has("id") || !p || !p->is_obj()) continue;
				if (open_keys[{(int)ci, js::dump(*meth)}] <= 0) vd.add("C01/notification-outside-fetch-lifetime", "conn " + std::to_string(ci) + " fetch " + js::dump(*meth) + ": " + c.raw[i].substr(0, 200));
				const Value *path = p->get("path"), *ev = p->get("event");
				if (!path || !ev || !path->is_str() || !ev->is_str()) continue;
				Replica &r = replicas[{(int)ci, js::dump(*meth)}];
				bool known = r.states.count(path->s) || r.methods.count(path->s);
				if (ev->s == "add") {
					if (known) vd.add("C01/duplicate-add", "conn " + std::to_string(ci) + " fetch " + js::dump(*meth) + " path '" + path->s + "'");
					if (p->has("value")) r.states[path->s] = *p->get("value"); else r.methods.insert(path->s);
				} else if (ev->s == "change") {
					if (!r.states.count(path->s)) vd.add("C01/change-for-unreported", "conn " + std::to_string(ci) + " path '" + path->s + "'");
					if (p->has("value")) r.states[path->s] = *p->get("value");
				} else if (ev->s == "remove") {
					if (!known) vd.add("C01/remove-for-unreported", "conn " + std::to_string(ci) + " path '" + path->s + "'");
					r.states.erase(path->s); r.methods.erase(path->s);
				}
			}
		}
	}

	void replica_compare()
	{
		for (size_t pi = 0; pi < m.peers.size() && pi < cc.size(); pi++) {
			model::Peer &p = m.peers[pi];
			if (!p.alive || cc[pi].client_ended || cc[pi].model_dropped || cc[pi].unchecked) continue;
			std::set<std::string> active;
			for (auto &f : p.fetches) {
				std::string key = js::dump(f.id);
				active.insert(key);
				Replica &r = replicas[{(int)pi, key}];
				std::map<std::string, const model::Elem *> want;
				for (auto &kv : m.elems) if (m.visible(kv.second, p) && f.rule.match(kv.first)) want[kv.first] = &kv.second;
				if (f.rule.ambiguous || f.rule.repeated_ci) continue;
				for (auto &w : want) {
					bool is_state = w.second->is_state;
					if (is_state) {
						auto it = r.states.find(w.first);
						if (it == r.states.end()) vd.add("C01/replica-missing", "conn " + std::to_string(pi) + " fetch " + key + " lacks '" + w.first + "'");
						else if (!js::equal(it->second, w.second->value)) vd.add("C01/replica-stale-value", "conn " + std::to_string(pi) + " fetch " + key + " path '" + w.first + "' has " + js::dump(it->second) + " want " + js::dump(w.second->value));
					} else if (!r.methods.count(w.first)) vd.add("C01/replica-missing", "conn " + std::to_string(pi) + " fetch " + key + " lacks method '" + w.first + "'");
				}
				for (auto &s : r.states) if (!want.count(s.first)) vd.add("C01/replica-phantom", "conn " + std::to_string(pi) + " fetch " + key + " still holds '" + s.first + "'");
				for (auto &s : r.methods) if (!want.count(s)) vd.add("C01/replica-phantom", "conn " + std::to_string(pi) + " fetch " + key + " still holds method '" + s + "'");
				if (want.size() >= 2) vd.stat["replica_compared_nonempty"]++;
			}
			// a fetch that ended must not receive anything: replicas of ended fetches are reset on unfetch
			for (auto it = replicas.begin(); it != replicas.end();) {
				if (it->first.first == (int)pi && !active.count(it->first.second)) it = replicas.erase(it); else ++it;
			}
		}
	}

	void check_connection_liveness()
	{
		simk::Kernel &k = simk::K();
		for (size_t ci = 0; ci < cc.size(); ci++) {
			CConn &c = cc[ci];
			const simk::Conn &kc = k.conns[c.kc];
			if (kc.aborted_in_accept) continue;
			// the daemon is idle: every connection attempt that reached a listening socket must have been accepted by now (unless the
			// daemon was told that it is out of descriptors or memory, in which case waiting for the next attempt is its documented choice)
			if (!kc.accepted && !kc.daemon_closed && !c.client_ended && !resource_accept_fault)
				vd.add("model/connection-not-accepted", "conn " + std::to_string(ci) + " is still waiting in the listen queue although the daemon is idle");
			bool should_be_open = !c.client_ended && !c.model_dropped;
			if (c.faulty && !c.client_ended) continue; // a faulty peer may or may not have been dropped yet
			if (c.ws && !c.handshake_valid) should_be_open = false;
			if (c.ws && c.hs_truncated && !c.client_ended) continue;
			if (should_be_open && kc.daemon_closed) vd.add("model/healthy-connection-dropped", "conn " + std::to_string(ci) + " was closed by the daemon although it did nothing wrong");
			if (!should_be_open && !kc.daemon_closed && kc.accepted) vd.add("model/connection-not-released", "conn " + std::to_string(ci) + " ended or violated the protocol but its descriptor is still open");
		}
	}

	// ------------------------------------------------------------------ quiescence
	void judge_step()
	{
		for (size_t ci = 0; ci < cc.size(); ci++) decode((int)ci);
		for (size_t ci = 0; ci < cc.size(); ci++) {
			CConn &c = cc[ci];
			if (!c.model_connected && simk::K().conns[c.kc].accepted && (!c.ws || c.handshake_valid)) { c.model_connected = true; m.connect((int)ci, c.local); if (have_alt) alt_model.connect((int)ci, c.local); }
		}
		if (opt.ws_check) ws_judge();
		if (opt.framing_check) flush_judge();
		if (opt.replica_check) replica_update();
		if (!opt.model_check) {
			// checks that do not judge transcripts still need the routed ids, or no owner could ever answer: take them from the
			// routed requests the owners received (a request object with a string id whose method is a path the model has in flight)
			for (size_t ci = 0; ci < cc.size(); ci++) {
				CConn &c = cc[ci];
				for (size_t i = c.checked; i < c.msgs.size(); i++) {
					const Value &msg = c.msgs[i];
					const Value *meth = msg.get("method"), *id = msg.get("id");
					if (!meth || !id || !meth->is_str() || !id->is_str()) continue;
					bool seen = false; for (auto &r : m.inflight) if (r.rid == id->s) seen = true;
					if (seen) continue;
					for (auto &r : m.inflight) if (r.owner == (int)ci && r.rid.empty() && r.path == meth->s) { r.rid = id->s; vd.stat["rids_learned"]++; break; }
				}
			}
		}
		if (opt.model_check) {
			// a faulty peer may be dropped by the daemon at any time (its response could not be written, its socket failed):
			// from then on it is an ordinary disconnect
			for (size_t ci = 0; ci < cc.size(); ci++) {
				CConn &c = cc[ci];
				if (c.faulty && !c.client_ended && !c.model_dropped && simk::K().conns[c.kc].daemon_closed) {
					c.model_dropped = true;
					if (m.peer((int)ci).alive) { m.drop((int)ci, exp); if (have_alt) alt_model.drop((int)ci, alt_exp); vd.stat["faulty_peer_dropped"]++; }
				}
			}
			std::string rule, detail;
			model::StepExp x = exp;
			bool use_alt = false;
			if (race_alt) {
				std::string r2, d2;
				have_alt = false;
				if (!match_step(x, r2, d2, m, false) && match_step(alt_exp, r2, d2, alt_model, false)) { m = alt_model; x = alt_exp; exp = alt_exp; vd.stat["race_took_alt_order"]++; }
			}
			if (have_alt && alt_conn >= 0) {
				// which branch did the daemon take? an error response to the single request of this step = refusal
				auto it = alt_exp.by_conn.find(alt_conn);
				CConn &rc = cc[alt_conn];
				if (it != alt_exp.by_conn.end() && !it->second.empty())
					for (size_t i = rc.checked; i < rc.msgs.size(); i++) if (model::matches(it->second[0][0], rc.msgs[i], nullptr)) use_alt = true;
			}
			if (have_alt && !use_alt) {
				// a request without id cannot show a refusal through a response: accept either branch as a whole
				auto it = alt_exp.by_conn.find(alt_conn);
				if (it == alt_exp.by_conn.end() || it->second.empty()) {
					std::string r2, d2;
					if (!match_step(x, r2, d2, m, false)) use_alt = true;
				}
			}
			if (use_alt) {
				if (match_step(alt_exp, rule, detail, alt_model, true)) { m = alt_model; vd.stat["refused_at_limit"]++; vd.labels.insert("refused-at-limit"); }
				else vd.add(rule, "step " + std::to_string(step_no) + " (request refused at a resource limit, so it must have no effect): " + detail);
			} else if (!match_step(x, rule, detail, m, true)) {
				if (step_has_alt_flag && !have_alt) vd.add("inconclusive/alt-in-joined-step", rule + ": " + detail);
				else vd.add(rule, "step " + std::to_string(step_no) + ": " + detail);
			}
			check_connection_liveness();
		}
		if (opt.timer_duration_check) {
			// every duration armed in this step must be the deadline the model computed for a request routed in this step
			std::vector<uint64_t> armed, want;
			auto &tl = simk::K().timer_log;
			for (; timer_log_seen < tl.size(); timer_log_seen++) if (tl[timer_log_seen].value_ns != 0) armed.push_back(tl[timer_log_seen].value_ns);
			for (auto &r : m.inflight) if (r.seq >= first_seq_of_step) want.push_back(r.tns);
			for (auto &r : concluded_in_step) want.push_back(r);
			std::sort(armed.begin(), armed.end()); std::sort(want.begin(), want.end());
			bool ok = armed.size() >= want.size();
			// requests routed and concluded within the same step are not in m.inflight any more; only check those still known
			for (uint64_t w : want) {
				bool f = false;
				for (auto &a : armed) { double rel = w ? std::fabs((double)a - (double)w) / (double)w : (a == w ? 0 : 1); if (rel <= 1e-9) { f = true; a = UINT64_MAX; break; } }
				if (!f) ok = false;
			}
			if (!ok && !vd.failed()) {
				std::string sa, sw; for (auto a : armed) sa += std::to_string(a) + " "; for (auto w : want) sw += std::to_string(w) + " ";
				vd.add("C14/armed-duration", "step " + std::to_string(step_no) + ": timer armed with [" + sa + "] ns, model deadlines [" + sw + "] ns");
			}
			if (!want.empty()) vd.stat["durations_checked"] += (long)want.size();
		}
		for (auto &c : cc) { c.checked = c.msgs.size(); c.ended_this_step = false; }
		if (opt.replica_check && opt.model_check && !vd.failed()) replica_compare();
		if (opt.hygiene_check) for (auto &h : simk::K().hygiene) vd.add("C07/hygiene", h);
		simk::K().hygiene.clear();
		size_t a = std::max(cjet_get_alloc_size(), simk::K().max_accounted);
		if (a > max_alloc_seen) max_alloc_seen = a;
		if (opt.cap_check && a > heap_cap()) vd.add("C07/heap-cap-exceeded", std::to_string(a) + " bytes accounted, cap " + std::to_string(heap_cap()));
		if (custom_check) custom_check(*this);
		exp = model::StepExp(); have_alt = false;
	}

	bool step()
	{
		if (next_op >= sc.ops.size()) return false;
		size_t j = next_op + 1;
		auto solo = [&](const Op &o) {
			if (o.kind == CONNECT) return true;
			if (o.kind == ADVANCE && !opt.allow_timer_join) return true;
			if (o.kind == END && ((o.a % 3) + 3) % 3 + 1 == simk::END_RESET && !opt.allow_reset_join) return true;
			return false;
		};
		bool first_is_solo = solo(sc.ops[next_op]);
		while (!first_is_solo && j < sc.ops.size() && sc.ops[j].join && !solo(sc.ops[j])) j++;
		// whatever a faulty connection (one with a write plan) sends is a step of its own: the daemon may drop that connection while
		// it serves it, and the model applies such a drop after the step's other effects
		for (size_t i = next_op; i < j && j - next_op > 1; i++) {
			const Op &o = sc.ops[i];
			if (o.kind == CONNECT || o.kind == ADVANCE || o.kind == FAULT) continue;
			int ci = live_conn(o.conn);
			if (ci >= 0 && cc[ci].faulty) { j = (i == next_op) ? next_op + 1 : i; break; }
		}
		// several connection attempts may reach the listening sockets before the daemon runs again (only connects join connects)
		if (sc.ops[next_op].kind == CONNECT) while (j < sc.ops.size() && sc.ops[j].join && sc.ops[j].kind == CONNECT) j++;
		connect_burst = sc.ops[next_op].kind == CONNECT && j - next_op > 1;
		// alternative grouping of readiness events (C09): operations of distinct connections whose bytes do not depend on the model
		// state arrive before the daemon runs again; FIFO batch order keeps the processing order, so the output must not change
		if (sc.batching != 0 && j == next_op + 1) {
			auto mergeable = [&](const Op &o) {
				switch (o.kind) {
				case ADD: case CHANGE: case REMOVE: case SET: case CALL: return (o.c & 2) == 0;
				case FETCH: case UNFETCH: case GET: case INFO: case CONFIG: case RAWREQ: case MSG: case PREFIX: return true;
				case END: return ((o.a % 3) + 3) % 3 + 1 == simk::END_EOF;
				default: return false;
				}
			};
			if (mergeable(sc.ops[next_op])) {
				uint64_t h = (uint64_t)sc.batching * 0x9E3779B97F4A7C15ull + next_op * 0xD6E8FEB86659FD93ull; h ^= h >> 31; h *= 0xBF58476D1CE4E5B9ull; h ^= h >> 29;
				size_t want = 1 + (size_t)(h % 3);
				if (sc.batching >= 5) want = 16; // a long pipelined burst
				std::set<int> used; int last = live_conn(sc.ops[next_op].conn); used.insert(last);
				while (j < sc.ops.size() && j - next_op < want && mergeable(sc.ops[j]) && !sc.ops[j].join) {
					int ci = live_conn(sc.ops[j].conn);
					// another connection, or the one that sent the previous message (pipelined messages arrive in one read): the
					// processing order stays the order of the operations
					if (ci < 0 || (used.count(ci) && ci != last)) break;
					if (sc.ops[j - 1].kind == END) break; // nothing follows an end on that connection
					used.insert(ci); last = ci; j++;
				}
				if (j - next_op > 1) vd.stat["regrouped_steps"]++;
			}
		}
		// a step that races the clock against something else holds exactly two operations and exactly one expiry
		// becomes due in it (both processing orders are then judged); otherwise the clock moves in a step of its own
		for (size_t i = next_op; i < j; i++) if (sc.ops[i].kind == ADVANCE && j - next_op > 1) {
			uint64_t ns = pick(advance_table(), sc.ops[i].a);
			size_t due = 0; for (auto &r : m.inflight) if (r.deadline <= m.now_ns + ns) due++;
			if (due != 1) { j = (i == next_op) ? next_op + 1 : i; break; }
			if (j - next_op > 2) { j = next_op + 2; if (i >= j) j = i; }
			break;
		}
		for (size_t i = next_op; i < j; i++) if (sc.ops[i].kind == BATCH && j - next_op > 1) { bool hasadv = false; for (size_t q = next_op; q < j; q++) if (sc.ops[q].kind == ADVANCE) hasadv = true; if (hasadv) { j = next_op + 1; break; } }
		std::vector<ModelEvent> evs;
		step_single = (j - next_op == 1) && sc.ops[next_op].kind != BATCH;
		auto plain_request = [&](const Op &o) { return o.kind == ADD || o.kind == REMOVE || o.kind == CHANGE || o.kind == FETCH || o.kind == UNFETCH || o.kind == GET || o.kind == SET || o.kind == CALL || o.kind == CONFIG || o.kind == INFO || o.kind == RAWREQ || o.kind == MUTREQ || o.kind == MSG; };
		if (prepared.op_index == next_op && step_single) {
			// the first bytes of this message arrived during the previous step; now the rest
			simk::K().send(prepared.kc, prepared.rest);
			for (auto &e : prepared.evs) { e.seq = evs.size(); evs.push_back(e); }
			vd.stat[std::string("op_") + kind_names[sc.ops[next_op].kind]]++;
			prepared = Prepared();
			next_op = j; step_no++;
			apply_model(evs);
			return true;
		}
		for (size_t i = next_op; i < j; i++) {
			const Op &op = sc.ops[i];
			if (op.kind != BATCH) { do_op(op, evs); continue; }
			int ci = live_conn(op.conn);
			size_t n = (size_t)(((op.a % 5) + 5) % 5);
			Value arr = Value::arr();
			size_t k = i + 1;
			// (a faulty connection sends single messages only: the daemon may drop it between two members of a batch)
			if (ci >= 0 && !cc[ci].client_ended && !simk::K().conns[cc[ci].kc].daemon_closed && !(cc[ci].faulty && opt.model_check)) {
				batch_sink = &arr; batch_conn = ci;
				for (; k < sc.ops.size() && k <= i + n; k++) {
					int kd = sc.ops[k].kind;
					bool reqkind = kd == ADD || kd == REMOVE || kd == CHANGE || kd == FETCH || kd == UNFETCH || kd == GET || kd == SET || kd == CALL || kd == CONFIG || kd == INFO || kd == RAWREQ || kd == MUTREQ || kd == REPLY;
					if (!reqkind) break;
					do_op(sc.ops[k], evs);
				}
				batch_sink = nullptr;
				if (op.b % 7 == 6) arr.push(Value::num(42)); // a member that is not an object ends the connection after the earlier members
				send_value(ci, arr, evs);
				vd.labels.insert(arr.a.size() >= 2 ? "batch>=2" : "batch<2");
				vd.stat["batch_members"] += (long)arr.a.size();
			} else vd.stat["noop"]++;
			if (k > j) j = k;
			i = k - 1;
		}
		if (j - next_op > 1) vd.labels.insert("joined-step");
		size_t cur_op = next_op;
		next_op = j;
		step_no++;
		apply_model(evs);
		// (after the model saw this step, so that symbolic references of the next operation resolve as they would one step later)
		if (sc.early_prefix != 0 && sc.batching == 0 && step_single && j < sc.ops.size() && plain_request(sc.ops[j]) && !sc.ops[j].join && (j + 1 >= sc.ops.size() || !sc.ops[j + 1].join)) {
			int ci_now = live_conn(sc.ops[cur_op].conn), ci_next = live_conn(sc.ops[j].conn);
			bool cur_is_conn_op = sc.ops[cur_op].kind != CONNECT && sc.ops[cur_op].kind != ADVANCE && sc.ops[cur_op].kind != FAULT;
			if (cur_is_conn_op && ci_next >= 0 && ci_next != ci_now && !cc[ci_next].client_ended && !cc[ci_next].poisoned && simk::K().conns[cc[ci_next].kc].accepted && !simk::K().conns[cc[ci_next].kc].daemon_closed) {
				std::string bytes; std::vector<ModelEvent> pe;
				capture = &bytes; do_op(sc.ops[j], pe); capture = nullptr;
				vd.stat[std::string("op_") + kind_names[sc.ops[j].kind]]--;
				if (bytes.size() >= 2) {
					uint64_t h = (uint64_t)sc.early_prefix * 0x9E3779B97F4A7C15ull + j * 0x632BE59BD9B4E019ull; h ^= h >> 29;
					size_t cut = 1 + (size_t)(h % (bytes.size() - 1));
					simk::K().send(cc[ci_next].kc, bytes.substr(0, cut));
					prepared.op_index = j; prepared.kc = cc[ci_next].kc; prepared.rest = bytes.substr(cut); prepared.evs = pe;
					vd.stat["early_prefixes"]++;
				} else { prepared.op_index = j; prepared.kc = cc[ci_next].kc; prepared.rest = bytes; prepared.evs = pe; }
			}
		}
		return true;
	}

	size_t heap_cap() const { return (sc.variant == "small" ? 64 : 20480) * 1024u; }

	void take_baseline()
	{
		simk::Kernel &k = simk::K();
		if (sc.fail_alloc >= 0) k.fail_alloc_at = k.alloc_calls + sc.fail_alloc;
		for (int x : sc.fail_allocs) k.fail_alloc_set.push_back(k.alloc_calls + x);
		base_alloc_calls = k.alloc_calls;
		base_alloc = cjet_get_alloc_size(); base_peers = get_number_of_peers(); base_fdset = k.open_fds(); base_timers = k.armed_timers(); base_live = k.live_blocks();
	}

	void compare_baseline(const char *when)
	{
		simk::Kernel &k = simk::K();
		if (cjet_get_alloc_size() != base_alloc) vd.add("C07/heap-not-at-baseline", std::string(when) + ": accounted heap " + std::to_string(cjet_get_alloc_size()) + " vs idle " + std::to_string(base_alloc));
		if (get_number_of_peers() != base_peers) vd.add("C07/peers-not-at-baseline", std::string(when) + ": " + std::to_string(get_number_of_peers()) + " peers listed with no connection left");
		if (k.open_fds() != base_fdset) {
			std::string s; for (int fd : k.open_fds()) if (!std::count(base_fdset.begin(), base_fdset.end(), fd)) s += " fd" + std::to_string(fd) + "(kind " + std::to_string(k.fds[fd].kind) + ")";
			vd.add("C07/descriptors-not-at-baseline", std::string(when) + ": still open:" + s);
		}
		if (k.armed_timers() != base_timers) vd.add("C07/timers-not-at-baseline", std::string(when) + ": " + std::to_string(k.armed_timers()) + " timers still armed");
		if (k.live_blocks() != base_live) vd.add("C07/blocks-not-at-baseline", std::string(when) + ": " + std::to_string(k.live_blocks()) + " live blocks vs " + std::to_string(base_live) + " " + k.live_block_report());
	}

	// called by the kernel when nothing is ready. true = keep running
	bool on_idle()
	{
		simk::Kernel &k = simk::K();
		if (!pending_tails.empty()) { auto t = pending_tails.front(); pending_tails.pop_front(); k.send(t.first, t.second); return true; }
		switch (phase) {
		case START:
			take_baseline();
			phase = RUN;
			// fallthrough
		case DRAINED:
		case RUN:
			if (step_no > 0 && phase == RUN) judge_step();
			if (!vd.failed() && step()) return true;
			if (vd.failed() && !only_inconclusive()) { phase = TERM; return finish_term(); }
			// orderly end
			if (opt.gap_check && phase == RUN) {
				// every slow reader catches up; then the daemon gets the chance to flush what it queued
				phase = DRAINED;
				bool any = false;
				for (auto &c : cc) { simk::Conn &kc = k.conns[c.kc]; kc.wplan.clear(); if (kc.blocked) { k.drain(c.kc); any = true; } }
				if (any) return true;
			}
			if (opt.gap_check) { gap_judge(); phase = RUN; }
			if (opt.serve_probe) {
				phase = PROBE;
				k.faults.clear(); // the probe is a healthy connection
				probe_failures_seen = k.alloc_failed_seen;
				probe_conn = (int)cc.size();
				CConn c; c.transport = 0; c.is_probe = true; c.kc = k.connect(simk::EP_RAW, 0); cc.push_back(c);
				k.send(c.kc, codec::raw_frame("{\"id\":\"probe\",\"method\":\"info\"}"));
				return true;
			}
			// fallthrough
		case PROBE:
			if (phase == PROBE) {
				decode(probe_conn);
				CConn &pc = cc[probe_conn];
				bool ok = false;
				for (auto &mm : pc.msgs) { const Value *id = mm.get("id"); if (id && id->is_str() && id->s == "probe" && mm.has("result")) ok = true; }
				// an injected allocation failure may have hit the probe itself: what matters is that the daemon serves afterwards
				if (!ok && k.alloc_failed_seen > probe_failures_seen && probe_attempts < 4) {
					probe_attempts++; probe_failures_seen = k.alloc_failed_seen;
					probe_conn = (int)cc.size();
					CConn c; c.transport = 0; c.is_probe = true; c.kc = k.connect(simk::EP_RAW, 0); cc.push_back(c);
					k.send(c.kc, codec::raw_frame("{\"id\":\"probe\",\"method\":\"info\"}"));
					return true;
				}
				if (!ok) vd.add("serve/probe-unanswered", "a fresh connection got no info response at the end of the scenario");
			}
			if (opt.census && phase != CENSUS) {
				phase = CENSUS;
				census_failures_seen = k.alloc_failed_seen;
				census_conn = (int)cc.size();
				CConn c; c.transport = 0; c.is_probe = true; c.kc = k.connect(simk::EP_RAW, 0); cc.push_back(c);
				k.send(c.kc, codec::raw_frame("{\"id\":\"census\",\"method\":\"fetch\",\"params\":{\"id\":\"census\"}}"));
				return true;
			}
			// fallthrough
		case CENSUS:
			if (phase == CENSUS) census_judge();
			if (sc.end == 1) { phase = TERM; return finish_term(); }
			phase = CLOSING;
			{
				bool any = false;
				for (auto &c : cc) if (!c.client_ended && !k.conns[c.kc].daemon_closed) { k.end(c.kc, simk::END_EOF); c.client_ended = true; any = true; }
				if (any) return true;
			}
			// fallthrough
		case CLOSING:
			if (opt.baseline_check) compare_baseline("after all connections closed");
			for (auto &h : k.hygiene) if (opt.hygiene_check) vd.add("C07/hygiene", h);
			k.hygiene.clear();
			phase = TERM;
			return finish_term();
		case TERM:
			sigterm_count++;
			if (sigterm_count > 3) { vd.add("C07/sigterm-ignored", "event loop keeps running after the termination signal"); if (fatal) fatal(*this); }
			return false;
		default: return false;
		}
	}
	bool only_inconclusive() const { for (auto &x : vd.v) if (x.rule.compare(0, 13, "inconclusive/") != 0) return false; return true; }
	bool finish_term() { return false; }
	std::function<void(World &)> fatal;

	void after_main(int rc)
	{
		simk::Kernel &k = simk::K();
		if (phase != TERM) { vd.add("C06/daemon-exited-early", "main returned " + std::to_string(rc) + " before the scenario ended (phase " + std::to_string((int)phase) + ")"); }
		else if (rc != 0) vd.add("C07/exit-status", "main returned " + std::to_string(rc) + " after SIGTERM");
		if (opt.baseline_check && phase == TERM) {
			if (k.open_fd_count() != 0) { std::string s; for (int fd : k.open_fds()) s += " fd" + std::to_string(fd) + "(kind " + std::to_string(k.fds[fd].kind) + ")"; vd.add("C07/descriptor-left-open-at-exit", s); }
			if (k.live_blocks() != 0) vd.add("C07/memory-left-at-exit", std::to_string(k.live_blocks()) + " blocks: " + k.live_block_report());
			if (cjet_get_alloc_size() != 0) vd.add("C07/accounting-nonzero-at-exit", std::to_string(cjet_get_alloc_size()));
		}
		if (opt.hygiene_check) for (auto &h : k.hygiene) vd.add("C07/hygiene", h);
		if (opt.accounting_check) {
			for (size_t ci = 0; ci < cc.size(); ci++) {
				if (cc[ci].is_probe) continue;
				decode((int)ci);
				std::map<std::string, long> got;
				for (auto &msg : cc[ci].msgs) if (msg.is_obj() && !msg.has("method") && msg.has("id")) got[js::dump(*msg.get("id"))]++;
				for (auto &g : got) {
					long sent = 0; auto it = sent_ids.find({(int)ci, g.first}); if (it != sent_ids.end()) sent = it->second;
					if (g.second > sent) vd.add("C15/more-responses-than-requests", "conn " + std::to_string(ci) + " id " + g.first + ": " + std::to_string(g.second) + " responses for " + std::to_string(sent) + " request(s)");
				}
			}
		}
		vd.stat["allocs_after_baseline"] = k.alloc_calls - base_alloc_calls;
		vd.stat["alloc_failures_hit"] = k.alloc_failed_seen;
		if (!k.failed_alloc_site.empty()) vd.transcripts.push_back("ALLOCSITE " + k.failed_alloc_site);
		if (opt.framing_check) framing_judge();
		if (custom_final) custom_final(*this);
		for (size_t ci = 0; ci < cc.size(); ci++) {
			if (cc[ci].is_probe) continue;
			decode((int)ci);
			CConn &c = cc[ci];
			std::string t = "conn" + std::to_string(ci) + (k.conns[c.kc].daemon_closed && !c.client_ended ? " closed-by-daemon" : "") + (c.ws ? " http=" + std::to_string(c.http.status) : "") + "\n";
			{
				// runs of consecutive error answers are compared as sets: the daemon emits the shutdown errors of one teardown in
				// routing-table order, which depends on heap addresses inside the routed ids, not on the input
				std::vector<std::string> run;
				auto flush = [&]() { std::sort(run.begin(), run.end()); for (auto &x : run) t += x + "\n"; run.clear(); };
				for (size_t i = 0; i < c.raw.size(); i++) {
					bool is_err = c.msgs[i].is_obj() && c.msgs[i].has("error") && !c.msgs[i].has("method");
					if (is_err) run.push_back(canon(c.raw[i])); else { flush(); t += canon(c.raw[i]) + "\n"; }
				}
				flush();
			}
			for (auto &f : c.ctrl) t += "ctrl op=" + std::to_string(f.opcode) + " " + tohex(f.payload) + "\n";
			vd.transcripts.push_back(t);
		}
		for (auto &s : m.stat) vd.stat["m_" + s.first] = s.second;
		vd.stat["steps"] = (long)step_no;
		vd.stat["max_alloc"] = (long)max_alloc_seen;
		vd.completed = true;
	}
};

} // namespace world
