// rapidcheck entry point shared by all scenario-based property drivers.
#pragma once
#include "driver.hpp"
#include "deadline.hpp"
#include <rapidcheck.h>

namespace drv {

// resize so that inRange does not collapse at small sizes
template <class T> rc::Gen<T> rng(T lo, T hi) { return rc::gen::resize(100, rc::gen::inRange<T>(lo, hi)); }

inline rc::Gen<scen::Op> op_gen(int kind, rc::Gen<int> conn, rc::Gen<int> a, rc::Gen<int> b, rc::Gen<int> c, rc::Gen<int> d, rc::Gen<int> idm, rc::Gen<bool> join)
{
	return rc::gen::apply([kind](int conn, int a, int b, int c, int d, int idm, bool join) {
		scen::Op o; o.kind = kind; o.conn = conn; o.a = a; o.b = b; o.c = c; o.d = d; o.idm = idm; o.join = join; return o; },
		conn, a, b, c, d, idm, join);
}
inline rc::Gen<int> zero() { return rc::gen::just(0); }
inline rc::Gen<bool> nojoin() { return rc::gen::just(false); }
inline rc::Gen<int> idmode() { return rc::gen::weightedElement<int>({{6, scen::ID_NUM}, {3, scen::ID_STR}, {1, scen::ID_NONE}}); }

inline rc::Gen<int> idmode_long() { return rc::gen::weightedElement<int>({{5, scen::ID_NUM}, {3, scen::ID_STR}, {3, scen::ID_LONG}, {1, scen::ID_NONE}}); }

inline int run_main(int argc, char **argv, Campaign &c, const rc::Gen<Scenario> &gen,
                    const std::function<void(Args &, Campaign &)> &configure = {})
{
	ensure_env(argc, argv);
	Args a = parse_args(argc, argv);
	if (configure) configure(a, c);
	c.known = load_known(a.known_file, c.prop);
	auto t0 = std::chrono::steady_clock::now();
	std::vector<js::Value> violations;
	int rc_exit = 0;
	if (!a.replay.empty()) {
		js::Value v; Scenario sc;
		if (!js::parse(read_file(a.replay), v) || !scen::from_json(v.get("scenario") ? *v.get("scenario") : v, sc)) { fprintf(stderr, "cannot read replay %s\n", a.replay.c_str()); return 2; }
		auto f = c.evaluate(sc);
		for (auto &x : f) {
			printf("FAIL %s: %s\n", x.signature.c_str(), x.detail.c_str());
			js::Value e = js::Value::obj(); e.set("signature", js::Value::str(x.signature)); e.set("detail", js::Value::str(x.detail)); e.set("replay", js::Value::str(a.replay));
			violations.push_back(e);
		}
		for (auto &k : c.known_hits) printf("KNOWN %s x%ld\n", k.first.c_str(), k.second);
		if (f.empty()) printf("PASS replay %s\n", a.replay.c_str());
		rc_exit = f.empty() ? 0 : 1;
	} else {
		std::string params = "seed=" + std::to_string(a.seed) + " max_success=" + std::to_string(a.cases) + " max_size=" + std::to_string(a.size) + " max_discard_ratio=100";
		if (c.noshrink) params += " noshrink=1"; // the failing execution itself is the minimal unit (fault index inside the scenario)
		setenv("RC_PARAMS", params.c_str(), 1);
		// rapidcheck prints its own report to stderr; keep stdout for machine-readable lines
		bool ok = rc::check(c.prop, [&]() {
			if (budget::over()) { budget::skipped()++; return; }
			Scenario sc = *gen;
			sc.variant = a.variant;
			auto f = c.evaluate(sc);
			if (!f.empty()) RC_FAIL(f[0].signature);
		});
		if (!ok && c.have_failing) {
			int fails = 0;
			Failure last = c.last_failure;
			for (int i = 0; i < 3; i++) { auto f = c.evaluate(c.last_failing, false); if (!f.empty()) { fails++; last = f[0]; } }
			js::Value rep = js::Value::obj();
			rep.set("property", js::Value::str(c.prop)); rep.set("signature", js::Value::str(last.signature)); rep.set("detail", js::Value::str(last.detail));
			rep.set("reproduced", js::Value::num(fails)); rep.set("scenario", scen::to_json(c.last_failing));
			char name[64]; snprintf(name, sizeof name, "%016llx", (unsigned long long)scen::hash(c.last_failing));
			std::string dir = a.replay_dir + "/" + c.prop + "/found";
			std::string cmd = "mkdir -p " + dir; if (system(cmd.c_str())) {}
			std::string path = dir + "/" + name + ".json";
			write_file(path, js::dump(rep));
			js::Value e = js::Value::obj(); e.set("signature", js::Value::str(last.signature)); e.set("detail", js::Value::str(last.detail)); e.set("replay", js::Value::str(path)); e.set("reproduced", js::Value::num(fails));
			if (fails >= 2) { violations.push_back(e); rc_exit = 1; printf("FOUND %s %s\n", last.signature.c_str(), path.c_str()); }
			else { c.inconclusive++; printf("FLAKY %s %s\n", last.signature.c_str(), path.c_str()); }
		}
	}
	double wall = std::chrono::duration<double>(std::chrono::steady_clock::now() - t0).count();
	c.labels["cases_skipped_after_budget"] += budget::skipped();
	if (!a.out.empty()) write_file(a.out, js::dump(campaign_json(c, wall, violations)));
	return rc_exit;
}

} // namespace drv
