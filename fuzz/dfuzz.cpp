// Coverage-guided (libFuzzer) target over the assembled daemon in the simulated kernel, in-process.
//
// The input bytes are decoded (structure-aware, payloads verbatim) into a scenario: three or more connections on raw,
// local-socket and HTTP/WebSocket endpoints; framed messages whose payload is taken byte for byte from the input, raw byte
// blobs, WebSocket frames with arbitrary opcode/flags/length encoding, request templates around fuzzed params, symbolic
// well-formed requests (so that elements, fetches and routed requests exist while the hostile bytes arrive), ends,
// reconnects, clock advances, read chunking. The daemon's real main() runs once per input; sanitizers plus the oracle below
// decide:
//   mode c06: no sanitizer report, daemon keeps running, the witness connection (valid requests only) is never dropped and
//             always answered, a fresh probe connection is served at the end.
//   mode c07: additionally the idle baseline (accounted heap, peers, descriptors, timers, live blocks) is restored after all
//             connections are gone / SIGTERM exits cleanly, and descriptor use is hygienic.
// A violation is dumped as an ordinary scenario replay (JSON) into $DFUZZ_OUT and the process traps, so libFuzzer keeps the
// input as crash artifact; `DFUZZ_DUMP=1 dfuzz <artifact>` prints the scenario of any input.
#include "../fw/inproc.hpp"
#include <cstdint>
#include <cstdio>
#include <fstream>
#include <unordered_set>

extern "C" { extern unsigned int uuid; }

using namespace scen;

namespace {

struct Cur {
	const uint8_t *p; size_t n, i = 0;
	bool more() const { return i < n; }
	int u8() { return i < n ? p[i++] : 0; }
	int u16() { int a = u8(); return a | (u8() << 8); }
	std::string bytes(size_t len) { if (len > n - i) len = n - i; std::string s((const char *)p + i, len); i += len; return s; }
};

const char *const methods[] = {"add", "remove", "change", "set", "call", "fetch", "unfetch", "get", "config", "info", "authenticate", "passwd", "nope"};

Scenario decode(const uint8_t *data, size_t size)
{
	Cur c{data, size};
	Scenario sc;
	int b0 = c.u8(), b1 = c.u8();
	static const int chunks[8] = {0, 0, 0, 0, 1, 2, 5, 13};
	sc.chunk_all = chunks[(b0 >> 5) & 7];
	sc.end = (b0 >> 4) & 1;
	sc.order_seed = b1 & 3;
	sc.dribble = ((b1 >> 2) & 3) == 3 ? 2 : ((b1 >> 2) & 3) == 2 ? 1 : 0;
	sc.junk_all = (b1 & 16) ? (b1 >> 5) & 7 : -1;
	{ Op o; o.kind = CONNECT; o.a = 0; sc.ops.push_back(o); }           // witness
	{ Op o; o.kind = CONNECT; o.a = (b0 & 3) % 3; sc.ops.push_back(o); }
	{ Op o; o.kind = CONNECT; o.a = ((b0 >> 2) & 3) % 3; sc.ops.push_back(o); }
	int records = 0;
	while (c.more() && records++ < 96) {
		int ctl = c.u8();
		Op o; o.conn = 1 + ((ctl >> 4) & 3); o.join = (ctl >> 6) & 1; o.idm = (ctl >> 7) ? ID_STR : ID_NUM;
		switch (ctl & 15) {
		case 0: case 1: case 2: { o.kind = MSG; size_t len = (size_t)c.u16() % 1100; o.s = c.bytes(len); break; }
		case 3: { o.kind = BYTES; size_t len = (size_t)c.u8(); o.s = c.bytes(len); break; }
		case 4: { o.kind = WSFRAME; o.a = c.u8() & 15; o.b = c.u8() & 31; o.c = c.u8() & 3; o.d = c.u16(); size_t len = (size_t)c.u16() % 600; o.s = c.bytes(len); break; }
		case 5: o.kind = END; o.a = c.u8() % 3; break;
		case 6: o.kind = CONNECT; o.conn = 0; o.join = false; o.a = c.u8() % 3; o.b = c.u8() % 4; break;
		case 7: o.kind = PARTIAL; o.a = c.u8() % 60; o.b = c.u8() % 6; break;
		case 8: o.kind = PREFIX; o.a = c.u8() % 7; break;
		case 9: { o.kind = CHUNK; int n = c.u8() % 6; for (int i = 0; i < n; i++) o.v.push_back(c.u8() % 9 + 1); break; }
		case 10: o.kind = ADVANCE; o.conn = 0; o.join = false; o.a = c.u8() % 13; break;
		case 11: o.kind = INFO; o.conn = 0; break;
		case 12: {
			static const int kinds[] = {ADD, REMOVE, CHANGE, FETCH, UNFETCH, SET, CALL, REPLY, GET, ADD, CALL, REPLY};
			int sub = c.u8(); o.kind = kinds[sub % 12]; int x = c.u8(), y = c.u8();
			o.a = x % 5; o.b = (o.kind == ADD && (sub & 16)) ? -1 : y % 15; o.c = (sub & 32) ? 2 : 0; o.d = (sub >> 6) % 3;
			if (o.kind == REPLY) { o.b = y % 5; o.c = x % 15; }
			break;
		}
		case 13: {
			o.kind = MSG; int m = c.u8(); size_t len = (size_t)c.u16() % 700; std::string params = c.bytes(len);
			o.s = std::string("{\"id\":") + std::to_string(m >> 4) + ",\"method\":\"" + methods[(m & 15) % 13] + "\",\"params\":" + params + "}";
			break;
		}
		case 14: o.kind = JUNK; o.a = c.u8() % 7; break;
		default: { o.kind = BYTES; size_t len = (size_t)c.u16() % 1500; o.s = c.bytes(len); break; }
		}
		sc.ops.push_back(o);
	}
	return sc;
}

// mode "model": only operations the reference model can judge. Fixed 5-byte records (ctl, a, b, c, d) after a 2-byte header.
Scenario decode_model(const uint8_t *data, size_t size)
{
	Cur c{data, size};
	Scenario sc;
	int b0 = c.u8(), b1 = c.u8();
	sc.end = (b0 >> 6) & 1;
	sc.order_seed = b1 & 3;
	for (int i = 0; i < 3; i++) { Op o; o.kind = CONNECT; o.a = ((b0 >> (2 * i)) & 3) % 3; sc.ops.push_back(o); }
	static const int kinds[16] = {ADD, REMOVE, CHANGE, FETCH, UNFETCH, GET, SET, CALL, REPLY, INFO, CONNECT, END, ADVANCE, RAWREQ, MUTREQ, BATCH};
	int records = 0;
	while (c.more() && records++ < 80) {
		int ctl = c.u8(); int a = c.u8(), b = c.u8(), cc = c.u8(), d = c.u8();
		Op o; o.kind = kinds[ctl & 15]; o.conn = (ctl >> 4) & 3; o.join = (ctl >> 6) & 1; o.idm = (ctl >> 7) ? ((d & 64) ? ID_NONE : ID_STR) : ID_NUM;
		switch (o.kind) {
		case ADD: o.a = a % 8; o.b = (b & 128) ? -1 : b % 15; o.c = (cc & 1) | ((cc & 4) ? 2 : 0); o.d = (d & 32) ? d % 12 : 0; break;
		case REMOVE: o.a = a % 8; o.c = (cc & 4) ? 2 : 0; break;
		case CHANGE: o.a = a % 8; o.b = b % 15; o.c = (cc & 4) ? 2 : 0; break;
		case FETCH: o.a = a % 5; o.b = b % 10; break;
		case UNFETCH: o.a = a % 5; break;
		case GET: o.b = b % 10; break;
		case SET: o.a = a % 8; o.b = b % 15; o.c = (cc & 4) ? 2 : 0; o.d = (d & 32) ? d % 12 : 0; break;
		case CALL: o.a = a % 8; o.b = (b & 128) ? -1 : b % 15; o.c = (cc & 4) ? 2 : 0; o.d = (d & 32) ? d % 12 : 0; break;
		case REPLY: o.a = a % 6; o.b = b % 5; o.c = cc % 15; break;
		case CONNECT: o.conn = 0; o.join = false; o.a = a % 3; o.b = b % 4; break;
		case END: o.a = a % 3; break;
		case ADVANCE: o.conn = 0; o.a = a % 13; break;
		case RAWREQ: o.a = a % 26; o.b = b % 27; o.c = cc % 15; break;
		case MUTREQ: o.a = a % 9; o.b = b % 8; o.c = cc % 12; o.d = d % 15; break;
		case BATCH: o.a = a % 5; o.b = b % 7; break;
		default: break;
		}
		sc.ops.push_back(o);
	}
	return sc;
}

std::string g_mode = "c06", g_out, g_stat_path;
std::vector<std::string> g_rules; // mode "model": rule prefixes that count (DFUZZ_RULES)
long g_execs = 0, g_nontrivial = 0;
std::unordered_set<uint64_t> g_seen;
std::map<std::string, long> g_labels, g_stat;
std::string g_sample;

void flush_stats()
{
	if (g_stat_path.empty()) return;
	js::Value o = js::Value::obj();
	o.set("evaluations", js::Value::num((double)g_execs));
	o.set("nontrivial_count", js::Value::num((double)g_nontrivial));
	js::Value l = js::Value::obj(); for (auto &x : g_labels) l.set(x.first, js::Value::num((double)x.second)); o.set("labels", l);
	js::Value s = js::Value::obj(); for (auto &x : g_stat) s.set(x.first, js::Value::num((double)x.second)); o.set("stat", s);
	js::Value sm = js::Value::arr(); if (!g_sample.empty()) { js::Value v; if (js::parse(g_sample, v)) sm.push(v); } o.set("samples", sm);
	std::ofstream f(g_stat_path + ".tmp"); f << js::dump(o); f.close();
	rename((g_stat_path + ".tmp").c_str(), g_stat_path.c_str());
}

void dump_and_trap(const Scenario &sc, const world::Verdict &vd)
{
	js::Value rep = js::Value::obj();
	rep.set("property", js::Value::str(getenv("DFUZZ_PROP") ? getenv("DFUZZ_PROP") : g_mode == "c07" ? "C07" : "C06"));
	rep.set("signature", js::Value::str(vd.v.empty() ? "?" : vd.v[0].rule));
	rep.set("detail", js::Value::str(vd.v.empty() ? "" : vd.v[0].detail));
	rep.set("scenario", scen::to_json(sc));
	char name[64]; snprintf(name, sizeof name, "/dfuzz-%016llx.json", (unsigned long long)scen::hash(sc));
	if (!g_out.empty()) { std::ofstream f(g_out + name); f << js::dump(rep); }
	fprintf(stderr, "DFUZZ-VIOLATION %s: %s\n", vd.v.empty() ? "?" : vd.v[0].rule.c_str(), vd.v.empty() ? "" : vd.v[0].detail.c_str());
	flush_stats();
	__builtin_trap();
}

world::RunOpts options()
{
	world::RunOpts o;
	if (g_mode == "model") { o.baseline_check = false; o.hygiene_check = true; return o; } // model, replicas, WebSocket judge, probe: as in the C01/C03/C05 checks
	o.model_check = false; o.replica_check = false; o.ws_check = false; o.reserve_conn0 = true;
	bool c07 = g_mode == "c07";
	o.baseline_check = c07; o.hygiene_check = c07; o.cap_check = c07;
	return o;
}

bool relevant(const std::string &rule)
{
	if (g_mode == "model") {
		if (rule.compare(0, 13, "inconclusive/") == 0) return false;
		for (auto &p : g_rules) if (rule.compare(0, p.size(), p) == 0) return true;
		return false;
	}
	static const char *c06[] = {"C06/", "serve/", "output/"};
	static const char *c07[] = {"C07/", "serve/"};
	if (g_mode == "c07") { for (auto p : c07) if (rule.compare(0, strlen(p), p) == 0) return true; return false; }
	for (auto p : c06) if (rule.compare(0, strlen(p), p) == 0) return true;
	return false;
}

void witness_check(world::World &ww)
{
	if (ww.cc.empty()) return;
	simk::Kernel &k = simk::K();
	world::CConn &wc = ww.cc[0];
	if (k.conns[wc.kc].daemon_closed && !wc.client_ended) ww.vd.add("C06/witness-dropped", "the connection that sent only valid requests was closed by the daemon");
	long answered = 0; for (auto &m : wc.msgs) if (m.is_obj() && m.has("result") && m.has("id")) answered++;
	long sent = 0; for (auto &s : ww.sent_ids) if (s.first.first == 0) sent += s.second;
	if (!wc.client_ended && !k.conns[wc.kc].daemon_closed && answered != sent) ww.vd.add("C06/witness-unanswered", std::to_string(sent) + " valid requests, " + std::to_string(answered) + " answers");
}

} // namespace

extern "C" int LLVMFuzzerInitialize(int *argc, char ***argv)
{
	(void)argc; (void)argv;
	if (const char *m = getenv("DFUZZ_MODE")) g_mode = m;
	if (const char *m = getenv("DFUZZ_OUT")) g_out = m;
	if (const char *m = getenv("DFUZZ_STAT")) g_stat_path = m;
	{ std::string r = getenv("DFUZZ_RULES") ? getenv("DFUZZ_RULES") : "model/,C01/,C03/,output/,serve/"; size_t p = 0; while (p <= r.size()) { size_t e = r.find(',', p); if (e == std::string::npos) e = r.size(); if (e > p) g_rules.push_back(r.substr(p, e - p)); p = e + 1; } }
	atexit(flush_stats);
	return 0;
}

extern "C" int LLVMFuzzerTestOneInput(const uint8_t *data, size_t size)
{

	Scenario sc = g_mode == "model" ? decode_model(data, size) : decode(data, size);
	if (getenv("DFUZZ_DUMP")) { // `DFUZZ_DUMP=1 dfuzz <artifact>`: print the scenario of an input instead of running it
		js::Value rep = js::Value::obj(); rep.set("property", js::Value::str(g_mode == "c07" ? "C07" : "C06")); rep.set("scenario", scen::to_json(sc));
		printf("DFUZZ-SCENARIO %s\n", js::dump(rep).c_str()); fflush(stdout);
		return 0;
	}
	uuid = 0;
	world::Verdict vd = inproc::run(sc, options(), [](world::World &w) { if (g_mode != "model") w.custom_check = witness_check; },
	                                [&](world::World &w) { dump_and_trap(sc, w.vd); });
	g_execs++;
	for (auto &x : vd.v) if (relevant(x.rule)) { world::Verdict one; one.v.push_back(x); dump_and_trap(sc, one); }
	auto g = [&](const char *k) { auto it = vd.stat.find(k); return it == vd.stat.end() ? 0L : it->second; };
	// non-trivial: at least two framed messages / WebSocket frames / byte blobs were delivered to non-witness connections
	bool nt = g_mode == "model" ? (g("msgs_sent") >= 4 && (g("m_routed") >= 1 || g("m_notify") >= 1 || vd.labels.count("joined-step"))) : g("op_msg") + g("op_wsframe") + g("op_bytes") >= 2;
	if (nt && g_seen.insert(scen::fnv(std::string((const char *)data, size))).second) {
		g_nontrivial++;
		if (g_sample.empty() || (g_nontrivial % 1024) == 0) g_sample = js::dump(scen::to_json(sc));
	}
	for (auto &l : vd.labels) g_labels[l]++;
	for (auto &s : vd.stat) g_stat[s.first] += s.second;
	if ((g_execs & 4095) == 0) flush_stats();
	return 0;
}

