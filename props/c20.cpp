// C20 — password changes are authorised, effective and crash-atomic on disk.
#include "../fw/rcmain.hpp"
#include <crypt.h>
using namespace drv;
using namespace scen;

static std::string hash_password(const std::string &pw, int method)
{
	static const char *salts[] = {"$1$saltsalt$", "$5$rounds=1000$saltstring$", "$6$rounds=1000$saltstring$", "$1$abcdefgh$"};
	struct crypt_data cd; cd.initialized = 0;
	const char *h = crypt_r(pw.c_str(), salts[method % 4], &cd);
	return h ? h : "";
}

static rc::Gen<Op> c20_op()
{
	auto conn = rng(0, 4);
	auto user = rng(0, 5);
	auto jn = nojoin();
	return rc::gen::weightedOneOf<Op>({
	    {8, op_gen(AUTH, conn, user, rc::gen::weightedElement<int>({{6, 0}, {2, 1}, {1, 2}, {2, 3}}), zero(), zero(), idmode(), jn)},
	    {8, op_gen(PASSWD, conn, user, rng(0, 9), zero(), zero(), idmode(), jn)},
	    {2, op_gen(CONNECT, zero(), rng(0, 3), rng(0, 4), zero(), zero(), zero(), jn)},
	    {1, op_gen(END, conn, rc::gen::just(0), zero(), zero(), zero(), zero(), jn)},
	    {1, op_gen(GET, conn, zero(), zero(), zero(), zero(), idmode(), jn)},
	    // file-system faults for the next update: errno on ftruncate/write/open/rename/fsync, or a short write
	    {3, rc::gen::apply([](int call, int nth, int err) { Op o; o.kind = FAULT; o.a = call; o.b = nth; o.c = err; return o; }, rc::gen::element<int>(9, 10, 10, 11, 12, 13), rng(0, 2), rc::gen::element<int>(6, 10, 11, 3))},
	    {3, rc::gen::apply([](int nth, int len) { Op o; o.kind = FAULT; o.a = 14; o.b = nth; o.d = len; return o; }, rng(0, 2), rc::gen::weightedOneOf<int>({{2, rng(0, 10)}, {2, rng(10, 200)}, {1, rng(200, 900)}}))},
	});
}

static rc::Gen<Scenario> c20_gen()
{
	return rc::gen::apply([](std::vector<int> methods, std::vector<Op> ops, int fill) {
		Scenario sc;
		sc.malloc_fill = fill ? 0xBE : 0x00;
		static const char *names[] = {"ann", "ann-admin", "guest", "annette", "carol"}; // a plain user whose name is a proper prefix of an admin's and of another plain user's
		static const bool admin[] = {false, true, false, false, true}, ro[] = {false, false, true, false, true};
		js::Value root = js::Value::obj(), us = js::Value::obj();
		for (int i = 0; i < 5; i++) {
			std::string pw = std::string("Orig-") + names[i] + "-pw" + std::to_string(i);
			js::Value u = js::Value::obj();
			u.set("password", js::Value::str(hash_password(pw, methods.empty() ? 0 : methods[(size_t)i % methods.size()])));
			if (admin[i]) u.set("admin", js::Value::boolean(true));
			if (ro[i]) u.set("readonly", js::Value::boolean(true));
			js::Value auth = js::Value::obj(); js::Value g = js::Value::arr(); g.push(js::Value::str("users"));
			auth.set("fetchGroups", g); auth.set("setGroups", g); auth.set("callGroups", g);
			u.set("auth", auth);
			us.set(names[i], u);
			sc.users.push_back(names[i]); sc.passwords.push_back(pw);
		}
		root.set("users", us);
		sc.cred = js::dump(root);
		{ Op o; o.kind = CONNECT; o.a = 0; sc.ops.push_back(o); }
		{ Op o; o.kind = CONNECT; o.a = 1; sc.ops.push_back(o); }
		{ Op o; o.kind = AUTH; o.conn = 0; o.a = 0; sc.ops.push_back(o); }
		{ Op o; o.kind = AUTH; o.conn = 1; o.a = 1; sc.ops.push_back(o); }
		for (auto &o : ops) sc.ops.push_back(o);
		// after everything: fresh connections try the passwords in force and the original ones
		{ Op o; o.kind = CONNECT; o.a = 0; sc.ops.push_back(o); }
		for (int i = 0; i < 5; i++) { Op a; a.kind = AUTH; a.conn = -1; a.a = i; a.b = 0; sc.ops.push_back(a); Op b = a; b.b = 3; sc.ops.push_back(b); }
		int nconn = 0; for (auto &o : sc.ops) { if (o.kind == CONNECT) nconn++; }
		for (auto &o : sc.ops) if (o.kind == AUTH && o.conn == -1) o.conn = nconn - 1;
		return sc;
	}, rc::gen::container<std::vector<int>>(3, rng(0, 4)), rc::gen::container<std::vector<Op>>(c20_op()), rng(0, 2));
}

// what the durable file must be equivalent to, per snapshot
struct SnapRec { std::string call, content; bool present; std::map<std::string, std::string> before, after; };

int main(int argc, char **argv)
{
	Campaign c;
	c.prop = "C20";
	c.rules = {"model/", "C20/", "C07/hygiene", "output/", "serve/"};
	c.opt.hygiene_check = true;
	c.opt.baseline_check = false; // the in-memory user database legitimately changes size with a new hash
	c.opt.replica_check = false;
	c.nontrivial = [](const Verdict &vd, const Scenario &) {
		auto g = [&](const char *k) { auto it = vd.stat.find(k); return it == vd.stat.end() ? 0L : it->second; };
		return g("m_passwd_ok") >= 1 && g("file_snapshots") >= 1;
	};
	c.setup = [](World &w) {
		auto users_now = [](World &ww) { std::map<std::string, std::string> m; for (auto &u : ww.m.users) m[u.first] = u.second.password; return m; };
		auto prev = std::make_shared<std::map<std::string, std::string>>();
		auto seen = std::make_shared<size_t>(0);
		auto recs = std::make_shared<js::Value>(js::Value::arr());
		auto pending_before = std::make_shared<std::map<std::string, std::string>>();
		w.custom_check = [=](World &ww) {
			simk::Kernel &k = simk::K();
			auto now = users_now(ww);
			if (prev->empty()) *prev = now;
			for (; *seen < k.file_snaps.size(); (*seen)++) {
				auto &sn = k.file_snaps[*seen];
				if (sn.call == "close") continue;
				js::Value r = js::Value::obj();
				r.set("call", js::Value::str(sn.call)); r.set("present", js::Value::boolean(sn.present)); r.set("content", js::Value::str(scen::tohex(sn.content)));
				js::Value b = js::Value::obj(), a = js::Value::obj();
				// acceptable: the credential set before this step, or the one the model has now (change carried out)
				for (auto &u : *prev) b.set(u.first, js::Value::str(u.second));
				for (auto &u : now) a.set(u.first, js::Value::str(u.second));
				r.set("before", b); r.set("after", a);
				if (recs->a.size() < 64) recs->push(r);
				ww.vd.stat["file_snapshots"]++;
			}
			*prev = now;
			// hand the records to the parent through the transcript channel
			ww.vd.labels.insert("has-cred");
		};
		w.custom_final = [=](World &ww) {
			ww.vd.transcripts.push_back("SNAPRECS " + js::dump(*recs));
			// the file as left on disk at the very end must carry the credential set in force
			simk::Kernel &k = simk::K();
			js::Value r = js::Value::obj();
			auto it = k.file_by_path.find("/cred.json");
			r.set("call", js::Value::str("final")); r.set("present", js::Value::boolean(it != k.file_by_path.end()));
			r.set("content", js::Value::str(scen::tohex(it != k.file_by_path.end() ? k.file_content[it->second] : "")));
			js::Value a = js::Value::obj(); for (auto &u : ww.m.users) a.set(u.first, js::Value::str(u.second.password));
			r.set("before", a); r.set("after", a);
			js::Value arr = js::Value::arr(); arr.push(r);
			ww.vd.transcripts.push_back("SNAPRECS " + js::dump(arr));
		};
	};
	// parent side: load every distinct durable image in a fresh daemon and find out which passwords it honours
	c.extra = [](Campaign &cc, const Scenario &base, const CaseResult &r0) {
		std::vector<Failure> out;
		std::set<std::string> done;
		for (auto &t : r0.vd.transcripts) {
			if (t.compare(0, 9, "SNAPRECS ") != 0) continue;
			js::Value recs; if (!js::parse(t.substr(9), recs)) continue;
			for (auto &r : recs.a) {
				std::string content = scen::fromhex(r.get("content")->s), call = r.get("call")->s;
				bool present = r.get("present")->b;
				std::string key = content + "|" + js::dump(*r.get("before")) + js::dump(*r.get("after"));
				if (!done.insert(key).second) continue;
				if (!present) { out.push_back({"C20/file-missing", "after " + call + " the credential file does not exist"}); return out; }
				Scenario probe; probe.cred = content; probe.users = base.users; probe.passwords = base.passwords; probe.variant = base.variant;
				std::vector<std::pair<std::string, std::string>> tries;
				{ Op o; o.kind = CONNECT; o.a = 0; probe.ops.push_back(o); }
				for (size_t ui = 0; ui < base.users.size(); ui++) {
					std::set<std::string> cand;
					if (auto *b = r.get("before")->get(base.users[ui])) cand.insert(b->s);
					if (auto *a = r.get("after")->get(base.users[ui])) cand.insert(a->s);
					for (auto &pw : cand) { Op o; o.kind = AUTH; o.conn = 0; o.a = (int)ui; o.s = pw; o.idm = ID_STR; probe.ops.push_back(o); tries.push_back({base.users[ui], pw}); }
				}
				RunOpts po; po.model_check = false; po.replica_check = false; po.baseline_check = false; po.serve_probe = false; po.ws_check = false;
				CaseResult pr = run_case(probe, po, [](World &w) { w.custom_final = [](World &ww) { std::string t = "AUTHRES"; if (!ww.cc.empty()) for (auto &m : ww.cc[0].msgs) t += m.has("result") ? "1" : "0"; ww.vd.transcripts.push_back(t); }; });
				cc.evaluations++;
				cc.stat_sum["snapshots_probed"]++;
				std::string res;
				for (auto &x : pr.vd.transcripts) if (x.compare(0, 7, "AUTHRES") == 0) res = x.substr(7);
				bool loaded = !pr.crashed && pr.vd.completed;
				for (auto &v : pr.vd.v) if (v.rule == "C06/daemon-exited-early") loaded = false;
				if (pr.crashed || !loaded || res.size() != tries.size()) {
					out.push_back({"C20/snapshot-not-loadable", "the durable file image after " + call + " (" + std::to_string(content.size()) + " bytes: " + content.substr(0, 60) + "...) cannot be loaded by a fresh daemon" + (pr.crashed ? " [" + pr.crash_sig + "]" : "")});
					return out;
				}
				std::map<std::string, std::string> honoured; bool multi = false;
				for (size_t i = 0; i < tries.size(); i++) if (res[i] == '1') { if (honoured.count(tries[i].first)) multi = true; honoured[tries[i].first] = tries[i].second; }
				auto as_map = [&](const js::Value *m) { std::map<std::string, std::string> x; for (auto &kv : m->o) x[kv.first] = kv.second.s; return x; };
				if (multi || (honoured != as_map(r.get("before")) && honoured != as_map(r.get("after")))) {
					std::string h; for (auto &kv : honoured) h += kv.first + "=" + kv.second + " ";
					out.push_back({"C20/snapshot-neither-old-nor-new", "the durable file image after " + call + " honours {" + h + "} which is neither the old nor the new credential set"});
					return out;
				}
			}
		}
		return out;
	};
	return run_main(argc, argv, c, c20_gen());
}
