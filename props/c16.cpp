// C16 — fetch path rules select exactly the paths their matchers describe.
#include "../fw/rcmain.hpp"
using namespace drv;
using namespace scen;

struct MSpec { int name, path, tr, k; };
struct RSpec { std::vector<MSpec> ms; int ci; int malformed; };

static std::string transform(const std::string &p, int tr, int k)
{
	size_t n = p.size();
	size_t kk = n ? (size_t)k % (n + 1) : 0;
	switch (((tr % 9) + 9) % 9) {
	case 0: return p;
	case 1: return p.substr(0, kk);                 // prefix
	case 2: return p.substr(n - kk);                // suffix
	case 3: return n >= 2 ? p.substr(1, 1 + kk % (n - 1)) : p; // infix
	case 4: return p + "x";                          // one byte longer
	case 5: { std::string q = p; for (auto &c : q) { if (c >= 'a' && c <= 'z') c = (char)(c - 32); else if (c >= 'A' && c <= 'Z') c = (char)(c + 32); } return q; }
	case 6: return "";
	case 7: return "x" + p;
	default: { std::string q = p; if (!q.empty()) { char &c = q[kk % q.size()]; if (c >= 'a' && c <= 'z') c = (char)(c - 32); else if (c >= 'A' && c <= 'Z') c = (char)(c + 32); } return q; }
	}
}

static std::string rule_text(const RSpec &r, const std::vector<std::string> &paths)
{
	// six matchers, then names no matcher has: unrelated, and near misses of every matcher and of the option key (longer, shorter, other case)
	static const char *names[] = {"equals", "equalsNot", "startsWith", "endsWith", "contains", "containsAllOf", "matches", "Equals",
	                              "caseInsensitiveX", "caseInsensitive ", "caseinsensitive", "caseInsensitiv", "equal", "equalsNotX", "startswith", "endsWit", "containsAll", "containsAllOfs", "", "contain"};
	const int NNAMES = 20;
	if (r.malformed == 4) return "\"a\"";   // path is not an object
	if (r.malformed == 5) return "[]";
	js::Value o = js::Value::obj();
	bool first_ci = r.ci == 5; // option before the matchers
	auto ci_val = [&](int) { return js::Value::boolean(r.ci == 1 || r.ci == 3 || r.ci == 5); };
	if (first_ci) o.set("caseInsensitive", ci_val(0));
	size_t idx = 0;
	for (auto &m : r.ms) {
		const std::string &name = names[((m.name % NNAMES) + NNAMES) % NNAMES];
		const std::string &p = paths[(size_t)(((m.path % (int)paths.size()) + (int)paths.size()) % (int)paths.size())];
		std::string operand = transform(p, m.tr, m.k);
		js::Value v;
		if (name == "containsAllOf") {
			v = js::Value::arr();
			v.push(js::Value::str(operand));
			if (m.k % 3) v.push(js::Value::str(transform(p, m.tr + 1, m.k + 1)));
			if (r.malformed == 2 && idx == 0) v = js::Value::str(operand);
			if (r.malformed == 3 && idx == 0) v.push(js::Value::num(1));
		} else {
			v = js::Value::str(operand);
			if (r.malformed == 1 && idx == 0) v = js::Value::num(5);
		}
		o.set(name, v);
		idx++;
		if (idx == 1 && (r.ci == 3 || r.ci == 4)) o.set("caseInsensitive", ci_val(0)); // first occurrence in the middle
	}
	if (r.ci >= 1 && r.ci <= 4) o.set("caseInsensitive", ci_val(1));
	return js::dump(o);
}

static rc::Gen<RSpec> rspec_gen()
{
	auto ms = rc::gen::apply([](int name, int path, int tr, int k) { return MSpec{name, path, tr, k}; },
	                         rc::gen::weightedOneOf<int>({{12, rng(0, 6)}, {2, rng(6, 20)}}), rng(0, 8), rng(0, 9), rng(0, 6));
	auto many = rc::gen::weightedOneOf<std::vector<MSpec>>({
	    {12, rc::gen::resize(4, rc::gen::container<std::vector<MSpec>>(ms))},
	    {1, rc::gen::container<std::vector<MSpec>>(14, ms)},   // more than the configured maximum
	    {1, rc::gen::container<std::vector<MSpec>>(12, ms)},   // exactly the maximum
	});
	return rc::gen::apply([](std::vector<MSpec> v, int ci, int mal) { return RSpec{v, ci, mal}; }, many,
	                      rc::gen::weightedElement<int>({{6, 0}, {4, 1}, {2, 2}, {1, 3}, {1, 4}, {1, 5}}),
	                      rc::gen::weightedElement<int>({{14, 0}, {1, 1}, {1, 2}, {1, 3}, {1, 4}, {1, 5}}));
}

static rc::Gen<std::string> path_gen()
{
	auto ch = rc::gen::element<char>('a', 'b', 'A', 'B', '/', 'c');
	return rc::gen::weightedOneOf<std::string>({
	    {8, rc::gen::resize(4, rc::gen::container<std::string>(ch))},
	    {1, rc::gen::just(std::string("\xc3\xa4" "b"))},
	    {1, rc::gen::just(std::string("\xc3\x84" "b"))},
	});
}

static rc::Gen<Scenario> c16_gen()
{
	return rc::gen::apply([](std::vector<std::string> base, std::vector<RSpec> rules, std::vector<int> extra, int kindmask) {
		Scenario sc;
		// a family of related paths: each base string, plus concatenations (prefix/suffix/infix relations)
		std::vector<std::string> paths;
		auto addp = [&](const std::string &s) { if (std::find(paths.begin(), paths.end(), s) == paths.end() && paths.size() < 8) paths.push_back(s); };
		for (auto &b : base) addp(b);
		for (size_t i = 0; i + 1 < base.size(); i++) { addp(base[i] + base[i + 1]); addp(base[i + 1] + "/" + base[i]); }
		if (paths.empty()) paths.push_back("a");
		sc.paths = paths;
		sc.rules.push_back(""); // no rule: selects everything
		for (auto &r : rules) sc.rules.push_back(rule_text(r, paths));
		{ Op o; o.kind = CONNECT; sc.ops.push_back(o); }
		{ Op o; o.kind = CONNECT; o.a = 1; sc.ops.push_back(o); }
		for (size_t i = 0; i < paths.size(); i++) { Op o; o.kind = ADD; o.conn = 0; o.a = (int)i; o.b = ((kindmask >> i) & 1) ? -1 : (int)i; sc.ops.push_back(o); }
		for (size_t r = 0; r < sc.rules.size(); r++) {
			{ Op o; o.kind = GET; o.conn = 1; o.b = (int)r; sc.ops.push_back(o); }
			{ Op o; o.kind = FETCH; o.conn = 1; o.a = 1; o.b = (int)r; sc.ops.push_back(o); }
			// a later change/remove/add must reach exactly the selected subscribers
			if (!extra.empty()) { Op o; o.kind = CHANGE; o.conn = 0; o.a = extra[r % extra.size()]; o.b = 3; sc.ops.push_back(o); }
			// the same fetch id must be usable again whatever happened to the previous request
			{ Op o; o.kind = UNFETCH; o.conn = 1; o.a = 1; sc.ops.push_back(o); }
			{ Op o; o.kind = FETCH; o.conn = 1; o.a = 1; o.b = 0; sc.ops.push_back(o); }
			{ Op o; o.kind = UNFETCH; o.conn = 1; o.a = 1; sc.ops.push_back(o); }
		}
		return sc;
	}, rc::gen::container<std::vector<std::string>>(4, path_gen()), rc::gen::resize(5, rc::gen::container<std::vector<RSpec>>(rspec_gen())),
	   rc::gen::resize(4, rc::gen::container<std::vector<int>>(rng(0, 8))), rng(0, 256));
}

int main(int argc, char **argv)
{
	Campaign c;
	c.prop = "C16";
	c.rules = {"model/", "C01/", "output/", "serve/"};
	c.opt.baseline_check = false;
	c.opt.hygiene_check = false;
	c.nontrivial = [](const Verdict &vd, const Scenario &sc) {
		auto g = [&](const char *k) { auto it = vd.stat.find(k); return it == vd.stat.end() ? 0L : it->second; };
		return sc.rules.size() >= 2 && g("partial_selection") >= 1;
	};
	// count rules that select a proper non-empty subset (evaluated with the reference matcher on the scenario's own pools)
	c.setup = [](World &w) {
		long partial = 0;
		for (auto &rt : w.sc.rules) {
			if (rt.empty()) continue;
			js::Value v; if (!js::parse(rt, v)) continue;
			model::Rule r = model::parse_rule(&v);
			if (!r.valid) { w.vd.labels.insert("malformed-rule"); continue; }
			if (r.repeated_ci) w.vd.labels.insert("repeated-option");
			if (r.ci) w.vd.labels.insert("case-insensitive");
			if (r.matchers.size() >= 2) w.vd.labels.insert("multi-matcher");
			size_t n = 0; for (auto &p : w.sc.paths) if (r.match(p)) n++;
			if (n > 0 && n < w.sc.paths.size()) partial++;
		}
		w.vd.stat["partial_selection"] = partial;
	};
	return run_main(argc, argv, c, c16_gen());
}
