// C13 — HTTP front door: non-upgrades get an error and leave nothing behind.
#include "../fw/rcmain.hpp"
using namespace drv;
using namespace scen;

struct Req { int defect, a, b, cut; bool eof_after; int endkind; };

// a valid upgrade with exactly one defect (0 = none)
static std::string build(const Req &r, bool &valid, bool &after_target)
{
	std::string method = "GET", target = "/api/jet/", version = "HTTP/1.1";
	std::vector<std::pair<std::string, std::string>> h = {{"Host", "localhost:11123"}, {"Upgrade", "websocket"}, {"Connection", "Upgrade"},
	                                                      {"Sec-WebSocket-Key", "dGhlIHNhbXBsZSBub25jZQ=="}, {"Sec-WebSocket-Version", "13"}, {"Sec-WebSocket-Protocol", "jet"}};
	valid = true; after_target = true;
	std::string raw_line;
	switch (r.defect) {
	case 0: break;
	case 1: { static const char *t[] = {"/other", "/api/je", "/", "/api/jetx", "/API/JET/", "/api/jet"}; target = t[r.a % 6]; valid = false; after_target = false; break; }
	case 2: { static const char *m[] = {"POST", "PUT", "HEAD", "DELETE", "OPTIONS"}; method = m[r.a % 5]; valid = false; break; }
	case 3: { static const char *v[] = {"HTTP/1.0", "HTTP/0.9"}; version = v[r.a % 2]; valid = false; break; }
	case 4: { static const char *l[] = {"GET /api/jet/ HTTP/1.x", "GET /api/jet/ JUNK", "GET /api/jet/ HTTP/1.1 extra", "GET /api/jet/", "GET /api/jet/ HTTP/11", "GET /api/jet/ \x01TTP/1.1"}; raw_line = l[r.a % 6]; valid = false; break; }
	case 5: { static const int which[] = {1, 2, 3, 4}; h.erase(h.begin() + which[r.a % 4]); valid = false; break; } // missing Upgrade / Connection / Key / Version
	case 6: h[3].second = (r.a % 2) ? "dGhlIHNhbXBsZQ==" : "dGhlIHNhbXBsZSBub25jZSBsb25nZXI="; valid = false; break;     // key of wrong length
	case 7: { static const char *v[] = {"12", "8", "14", "13x", ""}; h[4].second = v[r.a % 5]; valid = false; break; }
	case 8: { static const char *v[] = {"chat", "jetx, chat", "je"}; h[5].second = v[r.a % 3]; valid = false; break; }
	case 9: h[r.a % h.size()].first += " "; h[r.a % h.size()].second = ""; valid = false; raw_line = ""; break; // handled below: header line without colon
	case 10: h.insert(h.begin() + 1 + r.a % 3, {"X-Long", std::string(600 + r.b % 50, 'l')}); valid = false; break;   // header line longer than the read buffer
	case 11: target = "/api/jet/" + std::string(600, 't'); valid = false; after_target = false; break;                // request line longer than the read buffer
	case 12: valid = false; break; // truncation (cut applied by caller)
	default: break;
	}
	std::string s = raw_line.empty() ? method + " " + target + " " + version : raw_line;
	s += "\r\n";
	for (size_t i = 0; i < h.size(); i++) {
		if (r.defect == 9 && i == (size_t)r.a % h.size()) s += "NoColonHere value\r\n";
		else s += h[i].first + ": " + h[i].second + "\r\n";
	}
	s += "\r\n";
	if (!valid && r.defect != 12 && r.defect != 13 && (r.b % 4) == 3) {
		// the same defective request with bare LF line ends inside the head (only the last line ends in CRLF CRLF): http parsers
		// accept that, and then request line and header lines reach the server in one piece
		std::string t; size_t end = s.size() - 4;
		for (size_t i = 0; i < end; i++) { if (s[i] == '\r' && s[i + 1] == '\n') { t += '\n'; i++; } else t += s[i]; }
		s = t + "\r\n\r\n";
	}
	if (r.defect == 13) { // one corrupted byte inside the request line
		size_t eol = s.find("\r\n");
		size_t pos = (size_t)r.a % eol;
		static const char repl[] = {'\0', '\xff', '\r', '\n', '%', '\x7f'}; // no blanks: RFC 7230 3.5 lets a server parse extra whitespace leniently
		char c = repl[r.b % 6];
		if (s[pos] != c) { s[pos] = c; valid = false; after_target = pos > 13; }
	}
	return s;
}

static rc::Gen<Req> req_gen()
{
	return rc::gen::apply([](int defect, int a, int b, int cut, bool eof, int ek) { return Req{defect, a, b, cut, eof, ek}; },
	                      rc::gen::weightedElement<int>({{2, 0}, {1, 1}, {2, 2}, {2, 3}, {4, 4}, {2, 5}, {1, 6}, {1, 7}, {1, 8}, {2, 9}, {2, 10}, {1, 11}, {4, 12}, {4, 13}}),
	                      rng(0, 60), rng(0, 60), rng(1, 230), rc::gen::arbitrary<bool>(), rng(0, 3));
}

static rc::Gen<Scenario> c13_gen()
{
	return rc::gen::apply([](std::vector<Req> reqs, int end, int dribble, std::vector<int> chunks) {
		Scenario sc;
		// a healthy raw peer that owns something and fetches everything: must stay undisturbed
		{ Op o; o.kind = CONNECT; o.a = 0; sc.ops.push_back(o); }
		{ Op o; o.kind = FETCH; o.conn = 0; o.a = 0; o.b = 0; sc.ops.push_back(o); }
		{ Op o; o.kind = ADD; o.conn = 0; o.a = 0; o.b = 1; sc.ops.push_back(o); }
		for (auto &r : reqs) {
			bool valid, after;
			std::string text = build(r, valid, after);
			Op o; o.kind = CONNECT; o.a = 1; o.s = text; o.c = valid ? 0 : 1;
			if (r.defect == 12) o.d = 1 + r.cut % (int)(text.size() - 1);
			o.b = after ? 1 : 0;
			sc.ops.push_back(o);
			int ci = (int)sc.ops.size(); (void)ci;
			if (r.defect == 12 || r.eof_after) { Op e; e.kind = END; e.conn = -1; e.a = r.endkind; e.b = 777; sc.ops.push_back(e); } // conn resolved below
			{ Op g; g.kind = CHANGE; g.conn = 0; g.a = 0; g.b = r.a % 10; sc.ops.push_back(g); } // the healthy peer keeps working
		}
		// resolve END targets: the connection opened by the preceding CONNECT (index = number of connects so far - 1)
		int nconn = 0;
		for (auto &o : sc.ops) { if (o.kind == CONNECT) nconn++; if (o.kind == END && o.b == 777) { o.conn = nconn - 1; o.b = 0; } }
		sc.end = end; sc.dribble = dribble;
		(void)chunks;
		return sc;
	}, rc::gen::resize(6, rc::gen::container<std::vector<Req>>(req_gen())), rng(0, 2), rc::gen::weightedElement<int>({{2, 0}, {1, 1}, {1, 2}, {1, 5}}), rc::gen::container<std::vector<int>>(rng(1, 9)));
}

int main(int argc, char **argv)
{
	Campaign c;
	c.prop = "C13";
	c.rules = {"C13/", "C12/upgrade-refused", "C12/no-upgrade-response", "C07/", "model/", "output/", "serve/"};
	c.nontrivial = [](const Verdict &vd, const Scenario &sc) {
		for (auto &o : sc.ops) if (o.kind == CONNECT && o.a == 1 && (o.c & 1) && o.b == 1) return true; // defect after the request target matched
		(void)vd; return false;
	};
	return run_main(argc, argv, c, c13_gen());
}
