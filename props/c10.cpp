// C10 — outbound byte streams are whole frames in order, whatever the socket accepts.
#include "../fw/rcmain.hpp"
using namespace drv;
using namespace scen;

static rc::Gen<Op> c10_op()
{
	auto conn = rng(0, 4);
	auto path = rng(0, 8);
	auto val = rng(0, 15);
	auto jn = rc::gen::arbitrary<bool>();
	auto aim = rc::gen::element<int>(0, 2, 2);
	// write decisions: W_FULL=0, W_PARTIAL=1 (n = x/4), W_EAGAIN=2, W_ERR=3
	auto decision = rc::gen::weightedOneOf<int>({
	    {3, rc::gen::just(0)},
	    {8, rc::gen::map(rc::gen::weightedOneOf<int>({{4, rng(1, 8)}, {3, rng(8, 80)}, {2, rng(80, 600)}}), [](int n) { return 1 + 4 * n; })},
	    {3, rc::gen::just(2)},
	    {1, rc::gen::element<int>(3, 7)},
	});
	return rc::gen::weightedOneOf<Op>({
	    {6, op_gen(ADD, conn, path, val, zero(), zero(), idmode(), jn)},
	    {8, op_gen(CHANGE, conn, path, val, aim, zero(), idmode(), jn)},
	    {2, op_gen(REMOVE, conn, path, zero(), aim, zero(), idmode(), jn)},
	    {5, op_gen(FETCH, conn, rng(0, 4), rng(0, 4), zero(), zero(), idmode(), jn)},
	    {1, op_gen(UNFETCH, conn, rng(0, 4), zero(), zero(), zero(), idmode(), jn)},
	    {5, op_gen(GET, conn, zero(), rng(0, 4), zero(), zero(), idmode(), jn)},
	    {3, op_gen(INFO, conn, zero(), zero(), zero(), zero(), idmode(), jn)},
	    {3, op_gen(SET, conn, path, val, aim, zero(), idmode(), jn)},
	    {3, op_gen(REPLY, conn, rng(0, 4), rng(0, 2), val, zero(), zero(), jn)},
	    {2, op_gen(BATCH, conn, rng(2, 5), zero(), zero(), zero(), zero(), jn)},
	    {8, rc::gen::apply([](int conn, std::vector<int> v) { Op o; o.kind = WPLAN; o.conn = conn; o.v = v; return o; }, conn, rc::gen::resize(6, rc::gen::container<std::vector<int>>(decision)))},
	    {8, op_gen(DRAIN, conn, zero(), zero(), zero(), zero(), zero(), jn)},
	    // the socket becomes writable in the same readiness event in which input arrives that produces no frame for this connection
	    // (d = 1: expanded by c10_gen into a response cut short + DRAIN + an id-less request of the same connection)
	    {3, op_gen(DRAIN, conn, path, val, zero(), rc::gen::just(1), zero(), nojoin())},
	    // incoming control traffic on a WebSocket reader whose send path may be full: the pong is one more frame that must be whole or refused
	    {3, rc::gen::apply([](int conn, int len, int mk, bool join) { Op o; o.kind = WSFRAME; o.conn = conn; o.a = 9; o.b = 3; o.d = mk; o.s = std::string((size_t)len, 'p'); o.join = join; return o; },
	                       conn, rc::gen::element<int>(0, 1, 20, 100, 124, 125), rng(0, 1000), jn)},
	    // a batch whose first response (get of everything, larger than the tiny write buffer) meets a kernel that takes only a part (d = 2: expanded by c10_gen)
	    {2, op_gen(DRAIN, conn, rng(1, 60), zero(), zero(), rc::gen::just(2), zero(), nojoin())},
	    {1, op_gen(CONNECT, zero(), rng(0, 3), rng(0, 4), zero(), zero(), zero(), nojoin())},
	    {1, op_gen(END, conn, rng(0, 3), zero(), zero(), zero(), zero(), jn)},
	});
}

static rc::Gen<Scenario> c10_gen()
{
	return rc::gen::apply([](std::vector<Op> ops, int order_seed, int end, int big) {
		Scenario sc;
		{ Op o; o.kind = CONNECT; o.a = 0; sc.ops.push_back(o); }
		{ Op o; o.kind = CONNECT; o.a = 1; sc.ops.push_back(o); }
		{ Op o; o.kind = CONNECT; o.a = 0; sc.ops.push_back(o); }
		// many subscriptions on the readers, several states of different sizes on the publisher: every change fans out into many frames
		for (int c = 0; c < 2; c++) for (int f = 0; f < 3; f++) { Op o; o.kind = FETCH; o.conn = c; o.a = f; o.b = 0; sc.ops.push_back(o); }
		sc.values = world::default_values();
		sc.values.push_back("\"" + std::string(300, 'v') + "\""); sc.values.push_back("[\"" + std::string(180, 'w') + "\",1,2,3]"); // indices 15, 16: a get of everything outgrows the tiny write buffer
		for (int p = 0; p < 3 + big; p++) { Op o; o.kind = ADD; o.conn = 2; o.a = p; o.b = (p % 3 == 0) ? 15 + (p / 3) % 2 : 4 + p % 6; sc.ops.push_back(o); }
		for (auto &o : ops) {
			if (o.kind == DRAIN && o.d == 2) {
				{ Op w; w.kind = WPLAN; w.conn = o.conn; w.v = {1 + 4 * o.a}; sc.ops.push_back(w); }     // the next write is cut after o.a bytes
				{ Op b; b.kind = BATCH; b.conn = o.conn; b.a = 2; sc.ops.push_back(b); }
				{ Op g; g.kind = GET; g.conn = o.conn; g.b = 0; sc.ops.push_back(g); }
				{ Op i; i.kind = INFO; i.conn = o.conn; sc.ops.push_back(i); }
				continue;
			}
			if (o.kind == DRAIN && o.d == 1) {
				{ Op w; w.kind = WPLAN; w.conn = o.conn; w.v = {1 + 4 * (3 + o.b)}; sc.ops.push_back(w); }                    // the next write is cut after a few bytes
				{ Op i; i.kind = INFO; i.conn = o.conn; sc.ops.push_back(i); }                                                  // a response for this connection: torn, rest queued
				{ Op d; d.kind = DRAIN; d.conn = o.conn; sc.ops.push_back(d); }
				{ Op c; c.kind = o.a % 2 ? CONFIG : REMOVE; c.conn = o.conn; c.a = 11; c.idm = ID_NONE; c.join = true; sc.ops.push_back(c); } // no id: nothing is sent back
				continue;
			}
			sc.ops.push_back(o);
		}
		sc.order_seed = order_seed; sc.end = end;
		return sc;
	}, rc::gen::container<std::vector<Op>>(c10_op()), rng(0, 4), rng(0, 2), rng(0, 5));
}

int main(int argc, char **argv)
{
	Campaign c;
	c.prop = "C10";
	c.rules = {"C02/", "C10/", "C07/hygiene", "output/"};
	c.opt.model_check = false;
	c.opt.replica_check = false;
	c.opt.baseline_check = false;
	c.opt.serve_probe = false;
	c.opt.ws_check = false;
	c.opt.framing_check = true;
	c.opt.gap_check = true;
	c.nontrivial = [](const Verdict &vd, const Scenario &) {
		auto g = [&](const char *k) { auto it = vd.stat.find(k); return it == vd.stat.end() ? 0L : it->second; };
		return g("conns_with_partial_write") >= 1 && g("op_drain") >= 1 && g("frames_generated") >= 10;
	};
	return run_main(argc, argv, c, c10_gen());
}
