// C07 — all memory, descriptors and timers are reclaimed; descriptor use is hygienic.
#include "../fw/rcmain.hpp"
extern "C" { void *cjet_malloc(size_t size); void *cjet_calloc(size_t nmemb, size_t size); void cjet_free(void *ptr); }
using namespace drv;
using namespace scen;

static rc::Gen<Op> c07_op()
{
	auto conn = rng(0, 6);
	auto path = rng(0, 6);
	auto val = rng(0, 15);
	auto jn = rc::gen::arbitrary<bool>();
	auto aim = rc::gen::element<int>(0, 2, 2);
	auto tmo = rc::gen::weightedElement<int>({{6, 0}, {1, 1}, {1, 2}, {1, 5}, {1, 6}});
	return rc::gen::weightedOneOf<Op>({
	    {4, op_gen(ADD, conn, path, rc::gen::weightedOneOf<int>({{3, val}, {2, rc::gen::just(-1)}}), zero(), tmo, idmode(), jn)},
	    {1, op_gen(REMOVE, conn, path, zero(), aim, zero(), idmode(), jn)},
	    {2, op_gen(CHANGE, conn, path, val, aim, zero(), idmode(), jn)},
	    {3, op_gen(FETCH, conn, rng(0, 4), rng(0, 10), zero(), zero(), idmode(), jn)},
	    {1, op_gen(UNFETCH, conn, rng(0, 4), zero(), zero(), zero(), idmode(), jn)},
	    {1, op_gen(GET, conn, zero(), rng(0, 10), zero(), zero(), idmode(), jn)},
	    {5, op_gen(SET, conn, path, val, aim, tmo, idmode(), jn)},
	    {5, op_gen(CALL, conn, path, val, aim, tmo, idmode(), jn)},
	    {4, op_gen(REPLY, conn, rng(0, 4), rng(0, 5), val, zero(), zero(), jn)},
	    {3, op_gen(MUTREQ, conn, rng(0, 9), path, rng(0, 12), val, idmode(), jn)},
	    {3, op_gen(RAWREQ, conn, rng(0, 26), rng(0, 27), rng(0, 15), zero(), zero(), jn)},
	    {1, op_gen(BATCH, conn, rng(0, 5), rng(0, 7), zero(), zero(), zero(), jn)},
	    {1, op_gen(CONFIG, conn, rng(0, 5), zero(), zero(), zero(), idmode(), jn)},
	    {2, op_gen(AUTH, conn, rng(0, 3), rng(0, 3), zero(), zero(), idmode(), jn)},
	    {2, op_gen(ADVANCE, zero(), rng(0, 13), zero(), zero(), zero(), zero(), nojoin())},
	    {3, op_gen(CONNECT, zero(), rng(0, 3), rng(0, 4), rng(0, 8), zero(), zero(), nojoin())},
	    {3, op_gen(END, conn, rng(0, 3), zero(), zero(), zero(), zero(), jn)},
	    {2, op_gen(FAULT, zero(), rng(3, 9), rng(0, 6), rng(0, 10), zero(), zero(), nojoin())},
	    // more requests in flight to one owner than its routing table holds (c = 64: expanded by c07_gen): the surplus is refused
	    {1, op_gen(CALL, conn, rc::gen::just(1), val, rc::gen::just(64), tmo, idmode(), nojoin())},
	    {1, rc::gen::apply([](int conn, std::string s) { Op o; o.kind = BYTES; o.conn = conn; o.s = s; return o; }, conn, rc::gen::resize(30, rc::gen::container<std::string>(rc::gen::arbitrary<char>())))},
	});
}

static const char *CRED =
    "{\"users\":{\"u0\":{\"password\":\"$1$saltsalt$.YOui1omsu7RD6.BcwPK//\",\"auth\":{\"fetchGroups\":[\"g1\",\"g2\"],\"setGroups\":[\"g1\"],\"callGroups\":[\"g1\"]}},"
    "\"u1\":{\"password\":\"abWAcrLcu.e2o\",\"admin\":true,\"auth\":{\"fetchGroups\":[\"g2\"],\"setGroups\":[\"g2\"],\"callGroups\":[\"g2\"]}}}}";

static rc::Gen<Scenario> c07_gen()
{
	return rc::gen::apply([](std::vector<int> transports, std::vector<Op> ops, int order_seed, int end, bool cred) {
		Scenario sc;
		if (cred) { sc.cred = CRED; sc.users = {"u0", "u1"}; sc.passwords = {"secret-zero", "secret-one"}; }
		{ Op o; o.kind = CONNECT; o.a = 0; sc.ops.push_back(o); }
		for (int t : transports) { Op o; o.kind = CONNECT; o.a = t; sc.ops.push_back(o); }
		{ Op o; o.kind = ADD; o.conn = 0; o.a = 0; o.b = 1; sc.ops.push_back(o); }
		{ Op o; o.kind = ADD; o.conn = 0; o.a = 1; o.b = -1; sc.ops.push_back(o); }
		for (auto &o : ops) {
			if (o.kind == CALL && o.c == 64) {
				// 12 overflow the 8-slot table of the `small` variant, 80 the 64-slot table of the default configuration
				for (int i = 0; i < 80; i++) { Op c = o; c.c = 0; c.join = (i % 10) != 0; c.idm = (i % 4 == 3) ? ID_NONE : (i % 2 ? ID_STR : ID_NUM); sc.ops.push_back(c); }
				continue;
			}
			sc.ops.push_back(o);
		}
		sc.order_seed = order_seed; sc.end = end;
		return sc;
	}, rc::gen::resize(4, rc::gen::container<std::vector<int>>(rng(0, 3))), rc::gen::container<std::vector<Op>>(c07_op()), rng(0, 4), rng(0, 2), rc::gen::arbitrary<bool>());
}

int main(int argc, char **argv)
{
	Campaign c;
	c.prop = "C07";
	c.rules = {"C07/", "serve/"};
	c.opt.model_check = false;
	c.opt.replica_check = false;
	c.nontrivial = [](const Verdict &vd, const Scenario &) {
		auto g = [&](const char *k) { auto it = vd.stat.find(k); return it == vd.stat.end() ? 0L : it->second; };
		long conns = g("op_connect");
		bool abnormal = vd.labels.count("end:reset") || vd.labels.count("end:hup") || vd.labels.count("over-long-message") || g("raw_bytes") > 0;
		if (g("timers_created") >= 60) return true; // a routing table was driven to its limit
		return conns >= 3 && abnormal && g("timers_created") >= 1;
	};
	c.setup = [](World &w) {
		// "accounted heap never exceeds the configured cap", at the allocator itself: once per scenario (at the first quiescent point)
		// the heap is filled up to a generated distance from the cap; an array allocation whose total does not fit - although one member
		// does - must be refused, one that fits must succeed, and the account must never pass the cap
		w.custom_check = [](World &ww) {
			if (ww.vd.stat["allocator_exercised"]) return;
			ww.vd.stat["allocator_exercised"] = 1;
			size_t cap = ww.heap_cap(), used = cjet_get_alloc_size();
			uint64_t h = scen::hash(ww.sc);
			if (ww.sc.variant != "small" && (h >> 40) % 4 != 0) return; // (filling 20 MB costs a few milliseconds: every fourth scenario; always with the 64 KB cap)
			size_t room = 96 + (size_t)(h % 6000);
			if (cap < used + room + 4096) return;
			void *big = cjet_malloc(cap - used - room);
			if (!big) return;
			size_t free_now = cap > cjet_get_alloc_size() ? cap - cjet_get_alloc_size() : 0;
			size_t nmemb = 2 + (size_t)((h >> 16) % 40);
			size_t size = free_now / nmemb + 1 + (size_t)((h >> 24) % 24); // nmemb * size > free_now >= size
			void *too_big = cjet_calloc(nmemb, size);
			if (cjet_get_alloc_size() > cap) ww.vd.add("C07/heap-cap-exceeded", "cjet_calloc(" + std::to_string(nmemb) + ", " + std::to_string(size) + ") with " + std::to_string(free_now) + " bytes left: accounted " + std::to_string(cjet_get_alloc_size()) + " > cap " + std::to_string(cap));
			else if (too_big) ww.vd.add("C07/heap-cap-exceeded", "cjet_calloc(" + std::to_string(nmemb) + ", " + std::to_string(size) + ") succeeded with only " + std::to_string(free_now) + " bytes left below the cap");
			if (too_big) cjet_free(too_big);
			if (free_now >= 256) { size_t fit = (free_now - 64) / nmemb; void *ok = fit ? cjet_calloc(nmemb, fit) : nullptr; if (fit && !ok) ww.vd.add("C07/heap-cap-refuses-too-early", "cjet_calloc(" + std::to_string(nmemb) + ", " + std::to_string(fit) + ") refused with " + std::to_string(free_now) + " bytes left"); if (ok) cjet_free(ok); }
			cjet_free(big);
			if (cjet_get_alloc_size() != used) ww.vd.add("C07/heap-not-at-baseline", "allocator exercise: accounted " + std::to_string(cjet_get_alloc_size()) + " vs " + std::to_string(used) + " before");
		};
		w.custom_final = [](World &ww) {
			long n = 0; for (auto &f : simk::K().fds) if (f.kind == simk::K_TIMER) n++;
			ww.vd.stat["timers_created"] = n;
		};
	};
	return run_main(argc, argv, c, c07_gen(), [](Args &a, Campaign &) { (void)a; });
}
