// C12 — WebSocket endpoint follows RFC 6455 and is transparent for JSON-RPC.
#include "../fw/rcmain.hpp"
using namespace drv;
using namespace scen;

struct Hs { int order, casing, extra, proto, conn_hdr, upg; std::vector<int> key; };

static std::string handshake(const Hs &h)
{
	std::string keyraw; for (int i = 0; i < 16; i++) keyraw += (char)(h.key.empty() ? i : h.key[(size_t)i % h.key.size()] + i);
	std::string key = codec::base64(keyraw);
	// every offer contains the token "jet"; neighbours of every length (also 3), other case, odd spacing
	static const char *protos[] = {"jet", "chat, jet", "jet, chat", "a,jet,b", "jet", "jet, sip", "jet,JET", "foo, jet, bar", "sip, jet", "JET,  jet ,xml", "jet,jets,je"};
	const int NPROTO = 11;
	static const char *conns[] = {"Upgrade", "keep-alive, Upgrade", "upgrade", "Upgrade, keep-alive"};
	static const char *upgs[] = {"websocket", "WebSocket", "WEBSOCKET"};
	std::vector<std::pair<std::string, std::string>> hd = {{"Host", "localhost:11123"}, {"Upgrade", upgs[h.upg % 3]}, {"Connection", conns[h.conn_hdr % 4]},
	    {"Sec-WebSocket-Key", key}, {"Sec-WebSocket-Version", "13"}, {"Sec-WebSocket-Protocol", protos[h.proto % NPROTO]}};
	if (h.proto >= NPROTO) hd.push_back({"Sec-WebSocket-Protocol", h.proto % 2 ? "xml" : "wamp, sip"}); // a second header line continues the list
	if (h.extra & 1) hd.push_back({"Origin", "http://example.com"});
	if (h.extra & 2) hd.insert(hd.begin() + 1, {"User-Agent", "harness/1.0 (x; y) z"});
	if (h.extra & 4) hd.push_back({"Sec-WebSocket-Extensions", "permessage-deflate; client_max_window_bits"}); // the daemon runs without compression: must be ignored
	// rotate the header order (Host stays first)
	if (hd.size() > 2) std::rotate(hd.begin() + 1, hd.begin() + 1 + h.order % (hd.size() - 1), hd.end());
	std::string s = "GET /api/jet/ HTTP/1.1\r\n";
	for (auto &x : hd) {
		std::string n = x.first;
		if (h.casing == 1) for (auto &c : n) c = (char)tolower((unsigned char)c);
		if (h.casing == 2) for (auto &c : n) c = (char)toupper((unsigned char)c);
		s += n + ": " + x.second + "\r\n";
	}
	return s + "\r\n";
}

static rc::Gen<Hs> hs_gen()
{
	return rc::gen::apply([](int o, int c, int e, int p, int ch, int u, std::vector<int> k) { return Hs{o, c, e, p, ch, u, k}; },
	                      rng(0, 8), rng(0, 3), rng(0, 8), rng(0, 16), rng(0, 4), rng(0, 3), rc::gen::container<std::vector<int>>(4, rng(0, 200)));
}

static std::string info_of_size(int n, int tag)
{
	std::string base = "{\"id\":\"" + std::to_string(tag) + "-\",\"method\":\"info\"}";
	int pad = n - (int)base.size(); if (pad < 0) pad = 0;
	return "{\"id\":\"" + std::to_string(tag) + "-" + std::string((size_t)pad, 'p') + "\",\"method\":\"info\"}";
}

static rc::Gen<Op> frame_gen(rc::Gen<int> conn)
{
	auto mk = [](int conn, int opcode, int flags, int lenenc, int mask, std::string payload, bool join) { Op o; o.kind = WSFRAME; o.conn = conn; o.a = opcode; o.b = flags; o.c = lenenc; o.d = mask; o.s = payload; o.join = join; return o; };
	auto jn = rc::gen::arbitrary<bool>();
	auto okflags = rc::gen::just(3); // fin + masked
	auto sizes = rc::gen::element<int>(24, 25, 31, 32, 33, 64, 100, 125, 126, 127, 128, 200, 255, 256, 300, 400, 500, 511, 512);
	auto ctlsizes = rc::gen::element<int>(0, 1, 2, 7, 8, 9, 50, 124, 125);
	return rc::gen::weightedOneOf<Op>({
	    // text messages of boundary sizes (processed like on the raw transport)
	    {10, rc::gen::apply([mk](int conn, int n, int mask, bool join, int tag) { return mk(conn, 1, 3, 0, mask, info_of_size(n, tag), join); }, conn, sizes, rng(0, 100000), jn, rng(0, 1000))},
	    // pings and pongs
	    {5, rc::gen::apply([mk](int conn, int n, int mask, bool join, int op) { return mk(conn, op, 3, 0, mask, std::string((size_t)n, 'q'), join); }, conn, ctlsizes, rng(0, 100000), jn, rc::gen::element<int>(9, 9, 10))},
	    // violations: unmasked, rsv, reserved opcodes, fragmented control, oversized control
	    {1, rc::gen::apply([mk](int conn, int op, bool join) { return mk(conn, op, 1, 0, 0, "{\"id\":1,\"method\":\"info\"}", join); }, conn, rc::gen::element<int>(1, 9, 8), jn)},
	    {1, rc::gen::apply([mk](int conn, int rsv, int op, bool join) { return mk(conn, op, 3 | (rsv << 2), 0, 5, "{\"id\":1,\"method\":\"info\"}", join); }, conn, rng(1, 8), rc::gen::element<int>(1, 9), jn)},
	    {1, rc::gen::apply([mk](int conn, int op, bool join) { return mk(conn, op, 3, 0, 9, "x", join); }, conn, rc::gen::element<int>(3, 4, 5, 6, 7, 11, 12, 13, 14, 15), jn)},
	    {1, rc::gen::apply([mk](int conn, int op, bool join) { return mk(conn, op, 2, 0, 9, "ab", join); }, conn, rc::gen::element<int>(8, 9, 10), jn)},
	    {1, rc::gen::apply([mk](int conn, int op, int n, bool join) { return mk(conn, op, 3, 0, 9, std::string((size_t)n, 'z'), join); }, conn, rc::gen::element<int>(9, 10, 8), rc::gen::element<int>(126, 127, 200, 500), jn)},
	    // close frames: every class of status code, reasons valid and invalid
	    {4, rc::gen::apply([mk](int conn, int code, int reason, bool join) {
	            static const char *reasons[] = {"", "bye", "\xc3\xa4\xe2\x82\xac", "\xc0\x80", "\xed\xa0\x80", "\xff", "ok\xe2\x82"};
	            std::string p; p += (char)(code >> 8); p += (char)code; p += reasons[reason % 7];
	            return mk(conn, 8, 3, 0, 77, p, join); },
	        conn, rc::gen::element<int>(0, 999, 1000, 1001, 1002, 1003, 1004, 1005, 1006, 1007, 1008, 1009, 1010, 1011, 1015, 1016, 2000, 2999, 3000, 4000, 4999, 5000, 65535), rng(0, 7), jn)},
	    {1, rc::gen::apply([mk](int conn, int n, bool join) { return mk(conn, 8, 3, 0, 3, std::string((size_t)n, '\x03'), join); }, conn, rc::gen::element<int>(0, 1), jn)},
	    // data fragments, binary, continuation without start
	    {2, rc::gen::apply([mk](int conn, int op, int fin, bool join) { return mk(conn, op, 2 | fin, 0, 11, "{\"id\":5,", join); }, conn, rc::gen::element<int>(1, 2, 0), rc::gen::element<int>(0, 0, 1), jn)},
	    // invalid JSON / invalid UTF-8 in a text frame, empty text frame
	    {1, rc::gen::apply([mk](int conn, int w, bool join) { static const char *t[] = {"", "nonsense", "{\"id\":1,\"method\":\"inf", "\xff\xfe"}; return mk(conn, 1, 3, 0, 13, t[w % 4], join); }, conn, rng(0, 4), jn)},
	    // oversized declared data frame
	    {1, rc::gen::apply([mk](int conn, int n, bool join) { return mk(conn, 1, 3, 0, 17, info_of_size(n, 9), join); }, conn, rc::gen::element<int>(513, 600, 1000, 70000), jn)},
	    // ordinary jet traffic on the same connections (transparency): the model decides
	    {4, op_gen(ADD, conn, rng(0, 4), rng(0, 15), zero(), zero(), idmode(), jn)},
	    {3, op_gen(FETCH, conn, rng(0, 4), rng(0, 10), zero(), zero(), idmode(), jn)},
	    {3, op_gen(CHANGE, conn, rng(0, 4), rng(0, 15), rc::gen::just(2), zero(), idmode(), jn)},
	    {2, op_gen(GET, conn, zero(), rng(0, 10), zero(), zero(), idmode(), jn)},
	    {1, rc::gen::apply([](int conn, std::vector<int> v) { Op o; o.kind = CHUNK; o.conn = conn; o.v = v; return o; }, conn, rc::gen::container<std::vector<int>>(rng(1, 20)))},
	});
}

static rc::Gen<Scenario> c12_gen()
{
	return rc::gen::apply([](std::vector<Hs> hss, std::vector<Op> ops, int dribble, int order_seed, int end) {
		Scenario sc;
		{ Op o; o.kind = CONNECT; o.a = 0; sc.ops.push_back(o); }                 // conn 0: raw peer (transport differential through the shared model)
		{ Op o; o.kind = FETCH; o.conn = 0; o.a = 0; o.b = 0; sc.ops.push_back(o); }
		if (hss.empty()) hss.push_back(Hs{0, 0, 0, 0, 0, 0, {}});
		for (auto &h : hss) { Op o; o.kind = CONNECT; o.a = 1; o.s = handshake(h); o.c = 0; sc.ops.push_back(o); }
		for (auto &o : ops) sc.ops.push_back(o);
		sc.dribble = dribble; sc.order_seed = order_seed; sc.end = end;
		return sc;
	}, rc::gen::resize(3, rc::gen::container<std::vector<Hs>>(hs_gen())), rc::gen::container<std::vector<Op>>(frame_gen(rng(1, 5))),
	   rc::gen::weightedElement<int>({{3, 0}, {1, 1}, {1, 2}, {1, 3}, {1, 4}}), rng(0, 4), rng(0, 2));
}

int main(int argc, char **argv)
{
	Campaign c;
	c.prop = "C12";
	c.rules = {"C12/", "model/", "C01/", "output/", "serve/"};
	c.opt.baseline_check = false;
	c.opt.hygiene_check = false;
	c.nontrivial = [](const Verdict &vd, const Scenario &) {
		return vd.labels.count("handshake:valid-variant") && (vd.labels.count("ws:protocol-violation") || vd.labels.count("ws:close-frame") || vd.labels.count("ws:ping-pong") || vd.labels.count("ws:fragment-or-binary"));
	};
	return run_main(argc, argv, c, c12_gen());
}
