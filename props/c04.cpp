// C04 — element namespace: unique paths, owner-only mutation, state/method typing.
// An observer connection (conn 0) holds a fetch-all and issues `get` after every operation, so the
// daemon's own view of the element set is compared with the reference map after every step.
#include "../fw/rcmain.hpp"
using namespace drv;
using namespace scen;

// same function the daemon uses to place a path in its index; used only to *generate* colliding inputs
static uint32_t bucket_of(const std::string &key, unsigned order)
{
	uint32_t hash = 0;
	for (unsigned char c : key) hash = ((c + (hash << 6)) + (hash << 16)) - hash;
	uint32_t k = hash;
	k = (k ^ 61) ^ (k >> 16); k = k + (k << 3); k = k ^ (k >> 4); k = k * 0x27d4eb2d; k = k ^ (k >> 15);
	return k >> (32 - order);
}

static std::vector<std::string> adversarial_paths()
{
	std::vector<std::string> p = {"", "a", "A", std::string(210, 'p') + "/long", "\xc3\xa9tat/\xe2\x82\xac", "a/b", "quote\"back\\slash", "tab\there", " ", "a/b/"};
	// paths that share one home bucket in the shipped 2^13 index
	std::map<uint32_t, std::vector<std::string>> groups;
	for (int i = 0; i < 60000 && p.size() < 16; i++) {
		std::string k = "k" + std::to_string(i);
		auto &g = groups[bucket_of(k, 13)];
		g.push_back(k);
		if (g.size() == 6) { p.insert(p.begin() + 3, g[0]); p.insert(p.begin() + 4, g[1]); for (size_t j = 2; j < g.size(); j++) p.push_back(g[j]); break; }
	}
	return p;
}

// 36 paths that crowd one neighbourhood of the shipped 2^13 index: 21 with home bucket B, 15 with home bucket B+10. Adding
// 20 + 15 + 1 of them fills a run of more than 32 slots, so the last insertion has to displace an entry (hopscotch).
static const std::vector<std::string> &crowd_paths()
{
	static std::vector<std::string> out;
	if (!out.empty()) return out;
	std::vector<std::string> a, b;
	uint32_t B = bucket_of("crowd0", 13);
	uint32_t B2 = (B + 10) & 8191;
	for (int i = 0; i < 4000000 && (a.size() < 21 || b.size() < 15); i++) {
		std::string k = "crowd" + std::to_string(i);
		uint32_t h = bucket_of(k, 13);
		if (h == B && a.size() < 21) a.push_back(k);
		else if (h == B2 && b.size() < 15) b.push_back(k);
	}
	for (size_t i = 0; i < 20 && i < a.size(); i++) out.push_back(a[i]);
	for (auto &x : b) out.push_back(x);
	if (a.size() > 20) out.push_back(a[20]);
	return out;
}

static rc::Gen<Op> c04_op()
{
	auto conn = rc::gen::weightedOneOf<int>({{6, rng(1, 3)}, {1, rng(1, 6)}});
	auto path = rc::gen::weightedOneOf<int>({{6, rng(0, 6)}, {2, rng(0, 16)}});
	auto val = rng(0, 15);
	auto no = nojoin();
	auto aim = rc::gen::element<int>(0, 2);
	return rc::gen::weightedOneOf<Op>({
	    {7, op_gen(ADD, conn, path, rc::gen::weightedOneOf<int>({{3, val}, {2, rc::gen::just(-1)}}), rc::gen::weightedElement<int>({{5, 0}, {1, 1}, {3, 2}}), zero(), idmode(), no)},
	    {4, op_gen(REMOVE, conn, path, zero(), aim, zero(), idmode(), no)},
	    {5, op_gen(CHANGE, conn, path, val, aim, zero(), idmode(), no)},
	    {3, op_gen(SET, conn, path, val, aim, zero(), idmode(), no)},
	    {3, op_gen(CALL, conn, path, val, aim, zero(), idmode(), no)},
	    {2, op_gen(REPLY, conn, rng(0, 4), rng(0, 2), val, zero(), zero(), no)},
	    {5, op_gen(MUTREQ, conn, rng(0, 9), path, rng(0, 12), val, idmode(), no)},
	    {1, op_gen(CONNECT, zero(), rng(0, 3), rng(0, 4), zero(), zero(), zero(), no)},
	    {1, op_gen(END, conn, rng(0, 3), zero(), zero(), zero(), zero(), no)},
	});
}

static rc::Gen<Scenario> c04_gen()
{
	return rc::gen::apply([](std::vector<int> transports, std::vector<Op> ops, int crowd) {
		Scenario sc;
		sc.paths = adversarial_paths();
		size_t crowd_base = sc.paths.size();
		if (crowd == 0) for (auto &p : crowd_paths()) sc.paths.push_back(p);
		{ Op o; o.kind = CONNECT; o.a = 0; sc.ops.push_back(o); }              // observer = conn 0
		{ Op o; o.kind = FETCH; o.conn = 0; o.a = 1; o.b = 0; sc.ops.push_back(o); } // fetch-all
		{ Op o; o.kind = CONNECT; o.a = 0; sc.ops.push_back(o); }
		for (int t : transports) { Op o; o.kind = CONNECT; o.a = t; sc.ops.push_back(o); }
		if (crowd == 0) {
			// crowded-neighbourhood phase: one peer adds all of them, then the observer looks
			for (size_t i = crowd_base; i < sc.paths.size(); i++) { Op o; o.kind = ADD; o.conn = 1; o.a = (int)i; o.b = (int)(i % 12); sc.ops.push_back(o); }
			{ Op g; g.kind = GET; g.conn = 0; g.b = 0; sc.ops.push_back(g); }
			// every crowded path must still be found under its own name: the owner changes each of them
			for (size_t i = crowd_base; i < sc.paths.size(); i++) { Op o; o.kind = CHANGE; o.conn = 1; o.a = (int)i; o.b = (int)((i + 5) % 12); o.idm = (i % 3 == 0) ? ID_STR : ID_NUM; sc.ops.push_back(o); }
			{ Op g; g.kind = GET; g.conn = 0; g.b = 0; sc.ops.push_back(g); }
		}
		for (auto &o : ops) {
			sc.ops.push_back(o);
			Op g; g.kind = GET; g.conn = 0; g.b = 0; sc.ops.push_back(g);    // the daemon's own view after every step
		}
		return sc;
	}, rc::gen::container<std::vector<int>>(rng(0, 3)).as("transports"), rc::gen::container<std::vector<Op>>(c04_op()), rng(0, 8));
}

int main(int argc, char **argv)
{
	Campaign c;
	c.prop = "C04";
	c.rules = {"model/", "C01/", "output/", "serve/"};
	c.opt.baseline_check = false;
	c.opt.hygiene_check = false;
	c.nontrivial = [](const Verdict &vd, const Scenario &) {
		auto g = [&](const char *k) { auto it = vd.stat.find(k); return it == vd.stat.end() ? 0L : it->second; };
		return (g("m_change_refused_owner") + g("m_change_refused_method") + g("m_remove_refused") + g("m_route_refused") + g("m_add_exists")) >= 1 && g("m_readd_after_gone") >= 1;
	};
	return run_main(argc, argv, c, c04_gen());
}
