// C14 — routed-request deadlines: right value, never early, exactly one outcome.
#include "../fw/rcmain.hpp"
using namespace drv;
using namespace scen;

static rc::Gen<Op> c14_op()
{
	auto conn = rng(0, 5);
	auto path = rng(0, 4);
	auto val = rng(0, 15);
	auto jn = rc::gen::arbitrary<bool>();
	auto aim = rc::gen::element<int>(0, 2, 2, 2);
	auto tmo = rng(0, 15);   // every entry of the timeout table: absent, valid, too small, wrong type
	return rc::gen::weightedOneOf<Op>({
	    {4, op_gen(ADD, conn, path, rc::gen::weightedOneOf<int>({{3, val}, {3, rc::gen::just(-1)}}), zero(), tmo, idmode(), nojoin())},
	    {7, op_gen(SET, conn, path, val, aim, tmo, idmode(), jn)},
	    {7, op_gen(CALL, conn, path, val, aim, tmo, idmode(), jn)},
	    {7, op_gen(REPLY, conn, rng(0, 4), rng(0, 2), val, zero(), zero(), jn)},
	    {8, op_gen(ADVANCE, zero(), rng(0, 13), zero(), zero(), zero(), zero(), jn)},
	    {1, op_gen(CONNECT, zero(), rng(0, 3), rng(0, 4), zero(), zero(), zero(), nojoin())},
	    {3, op_gen(END, conn, rng(0, 3), zero(), zero(), zero(), zero(), jn)},
	    {3, op_gen(REMOVE, conn, path, zero(), aim, zero(), idmode(), jn)},   // the owner withdraws an element while requests routed to it are in flight
	});
}

static rc::Gen<Scenario> c14_gen()
{
	return rc::gen::apply([](std::vector<int> transports, std::vector<Op> ops, int order_seed, int t1, int t2) {
		Scenario sc;
		{ Op o; o.kind = CONNECT; o.a = 0; sc.ops.push_back(o); }
		{ Op o; o.kind = CONNECT; o.a = 1; sc.ops.push_back(o); }
		for (int t : transports) { Op o; o.kind = CONNECT; o.a = t; sc.ops.push_back(o); }
		{ Op o; o.kind = ADD; o.conn = 0; o.a = 0; o.b = 1; o.d = t1; sc.ops.push_back(o); }
		{ Op o; o.kind = ADD; o.conn = 0; o.a = 1; o.b = -1; o.d = t2; sc.ops.push_back(o); }
		for (auto &o : ops) sc.ops.push_back(o);
		sc.order_seed = order_seed;
		return sc;
	}, rc::gen::resize(3, rc::gen::container<std::vector<int>>(rng(0, 3))), rc::gen::container<std::vector<Op>>(c14_op()), rng(0, 6),
	   rc::gen::element<int>(0, 1, 2, 3, 9, 10), rc::gen::element<int>(0, 1, 2, 3, 9, 10));
}

int main(int argc, char **argv)
{
	Campaign c;
	c.prop = "C14";
	c.rules = {"model/", "C14/", "C03/", "output/", "serve/"};
	c.opt.baseline_check = false;
	c.opt.hygiene_check = false;
	c.opt.replica_check = false;
	c.opt.timer_duration_check = true;
	c.opt.allow_timer_join = true;
	c.nontrivial = [](const Verdict &vd, const Scenario &) {
		auto g = [&](const char *k) { auto it = vd.stat.find(k); return it == vd.stat.end() ? 0L : it->second; };
		return g("durations_checked") >= 1 && (vd.labels.count("timer-race-step") || g("m_timeout") >= 1);
	};
	return run_main(argc, argv, c, c14_gen());
}
