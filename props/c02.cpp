// C02 — JSON-RPC discipline: one response per request id, none for notifications, batches in order.
#include "../fw/rcmain.hpp"
using namespace drv;
using namespace scen;

static rc::Gen<Op> c02_op()
{
	auto conn = rng(0, 4);
	auto path = rng(0, 5);
	auto val = rng(0, 15);
	auto jn = rc::gen::arbitrary<bool>();
	auto aim = rc::gen::element<int>(0, 2);
	auto tmo = rc::gen::weightedElement<int>({{6, 0}, {1, 1}, {1, 2}, {1, 5}, {1, 6}});
	return rc::gen::weightedOneOf<Op>({
	    {12, op_gen(RAWREQ, conn, rng(0, 26), rng(0, 27), rng(0, 15), zero(), zero(), jn)},
	    {3, op_gen(BATCH, conn, rng(0, 5), rng(0, 7), zero(), zero(), zero(), jn)},
	    {3, op_gen(ADD, conn, path, rc::gen::weightedOneOf<int>({{3, val}, {2, rc::gen::just(-1)}}), zero(), tmo, idmode(), jn)},
	    {3, op_gen(REMOVE, conn, path, zero(), rc::gen::element<int>(0, 2, 2), zero(), idmode(), jn)},
	    {2, op_gen(CHANGE, conn, path, val, aim, zero(), idmode(), jn)},
	    {2, op_gen(FETCH, conn, rng(0, 4), rng(0, 10), zero(), zero(), idmode(), jn)},
	    {1, op_gen(UNFETCH, conn, rng(0, 4), zero(), zero(), zero(), idmode(), jn)},
	    {2, op_gen(GET, conn, zero(), rng(0, 10), zero(), zero(), idmode(), jn)},
	    {3, op_gen(SET, conn, path, val, aim, tmo, idmode(), jn)},
	    {3, op_gen(CALL, conn, path, val, aim, tmo, idmode(), jn)},
	    {6, op_gen(REPLY, conn, rng(0, 4), rc::gen::weightedElement<int>({{5, 0}, {2, 1}, {1, 2}, {1, 3}, {1, 4}}), val, zero(), zero(), jn)},
	    {2, op_gen(MUTREQ, conn, rng(0, 9), path, rng(0, 12), val, idmode(), jn)},
	    {1, op_gen(CONFIG, conn, rng(0, 5), zero(), zero(), zero(), idmode(), jn)},
	    {1, op_gen(ADVANCE, zero(), rng(0, 13), zero(), zero(), zero(), zero(), nojoin())},
	    {2, op_gen(CONNECT, zero(), rng(0, 3), rng(0, 4), zero(), zero(), zero(), nojoin())},
	    {3, op_gen(END, conn, rng(0, 3), zero(), zero(), zero(), zero(), jn)},
	    // a requester that stops reading while it keeps sending requests (d = 1: expanded by c02_gen), and one that catches up
	    {1, op_gen(WPLAN, conn, rng(0, 3), rng(4, 40), zero(), rc::gen::just(1), zero(), nojoin())},
	    {1, op_gen(DRAIN, conn, zero(), zero(), zero(), zero(), zero(), nojoin())},
	});
}

static rc::Gen<Scenario> c02_gen()
{
	return rc::gen::apply([](std::vector<int> transports, std::vector<Op> ops, int order_seed) {
		Scenario sc;
		{ Op o; o.kind = CONNECT; o.a = 0; sc.ops.push_back(o); }
		for (int t : transports) { Op o; o.kind = CONNECT; o.a = t; sc.ops.push_back(o); }
		for (auto &o : ops) {
			if (o.kind == WPLAN && o.d == 1) {
				// the kernel takes nothing (or only a few bytes) from now on; the responses pile up in the daemon's write buffer until
				// one does not fit: from then on the connection must end - a response may not be dropped while the connection lives on
				{ Op w; w.kind = WPLAN; w.conn = o.conn; w.v = {o.a == 0 ? 2 : 1 + 4 * (o.a * 7)}; sc.ops.push_back(w); }
				for (int i = 0; i < o.b; i++) { Op r; r.kind = INFO; r.conn = o.conn; r.idm = (i % 3) ? ID_NUM : ID_STR; sc.ops.push_back(r); }
				continue;
			}
			sc.ops.push_back(o);
		}
		// conclude what is in flight so that every accepted request has had its answer
		{ Op o; o.kind = ADVANCE; o.a = 10; sc.ops.push_back(o); }
		{ Op o; o.kind = ADVANCE; o.a = 10; sc.ops.push_back(o); }
		sc.order_seed = order_seed;
		return sc;
	}, rc::gen::resize(3, rc::gen::container<std::vector<int>>(rng(0, 3))), rc::gen::container<std::vector<Op>>(c02_op()), rng(0, 4));
}

int main(int argc, char **argv)
{
	Campaign c;
	c.prop = "C02";
	c.opt.gap_check = true;
	c.rules = {"C02/", "model/", "output/", "serve/"};
	c.opt.baseline_check = false;
	c.opt.hygiene_check = false;
	c.opt.replica_check = false;
	c.nontrivial = [](const Verdict &vd, const Scenario &) {
		return vd.labels.count("batch>=2") || vd.labels.count("id:other-type") || vd.labels.count("id:string") || vd.labels.count("incoming-response-object");
	};
	return run_main(argc, argv, c, c02_gen());
}
