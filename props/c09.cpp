// C09 — behaviour depends on each connection's byte stream, not on its segmentation.
// Metamorphic: one session, many schedules (read chunking, split deliveries across event-loop iterations, prefixes of the next
// message of another connection arriving early, junk in the unused part of the read buffer, consecutive messages of distinct
// connections grouped into one readiness batch) -> identical output everywhere.
// Direct: zero length is skipped, over-long length ends the connection, a message that is not a complete JSON text by itself is rejected.
#include "../fw/rcmain.hpp"
using namespace drv;
using namespace scen;

static rc::Gen<Op> c09_op()
{
	auto conn = rng(0, 4);
	auto path = rng(0, 5);
	auto val = rng(0, 15);
	auto no = nojoin();
	auto aim = rc::gen::element<int>(0, 2);
	return rc::gen::weightedOneOf<Op>({
	    {4, op_gen(ADD, conn, path, rc::gen::weightedOneOf<int>({{3, val}, {1, rc::gen::just(-1)}}), zero(), zero(), idmode(), no)},
	    {2, op_gen(CHANGE, conn, path, val, aim, zero(), idmode(), no)},
	    {1, op_gen(REMOVE, conn, path, zero(), aim, zero(), idmode(), no)},
	    {3, op_gen(FETCH, conn, rng(0, 4), rng(0, 10), zero(), zero(), idmode(), no)},
	    {2, op_gen(GET, conn, zero(), rng(0, 10), zero(), zero(), idmode(), no)},
	    {2, op_gen(SET, conn, path, val, aim, zero(), idmode(), no)},
	    {2, op_gen(REPLY, conn, rng(0, 3), rng(0, 2), val, zero(), zero(), no)},
	    {3, op_gen(RAWREQ, conn, rng(0, 26), rng(0, 27), rng(0, 15), zero(), zero(), no)},
	    {2, op_gen(BATCH, conn, rng(0, 5), rng(0, 7), zero(), zero(), zero(), no)},
	    {2, op_gen(PREFIX, conn, rc::gen::weightedElement<int>({{3, 0}, {1, 1}, {1, 2}, {1, 5}, {1, 6}}), zero(), zero(), zero(), zero(), no)},
	    // messages that are not a complete JSON text by themselves (strict prefixes of valid objects), and long fillers rich in closing brackets and quotes
	    {4, rc::gen::apply([](int conn, int which, int cut) { Op o; o.kind = MSG; o.conn = conn;
	            static const std::string full[] = {"{\"id\":1,\"method\":\"info\"}", "{\"id\":\"x\",\"method\":\"add\",\"params\":{\"path\":\"t\",\"value\":[1,{\"a\":\"}\"}]}}", "[{\"id\":2,\"method\":\"info\"},{\"id\":3,\"method\":\"info\"}]"};
	            const std::string &f = full[which % 3]; o.s = f.substr(0, 1 + (size_t)cut % (f.size() - 1)); return o; }, conn, rng(0, 3), rng(0, 80))},
	    {3, rc::gen::apply([](int conn, int n) { Op o; o.kind = MSG; o.conn = conn; std::string pad; for (int i = 0; i < n; i++) pad += (i % 3 == 0) ? "}" : (i % 3 == 1) ? "]" : "\\\"";
	            o.s = "{\"id\":9,\"method\":\"info\",\"params\":{\"filler\":\"" + pad + "\"}}"; return o; }, conn, rng(0, 120))},
	    // a burst of large messages on one connection (d = 1: expanded by c09_gen); under the regrouping schedule they arrive in one read
	    {1, op_gen(INFO, conn, rng(10, 14), zero(), zero(), rc::gen::just(1), zero(), no)},
	    {1, op_gen(CONNECT, zero(), rng(0, 3), rng(0, 4), zero(), zero(), zero(), no)},
	    {1, op_gen(END, conn, rc::gen::just(0), zero(), zero(), zero(), zero(), no)},
	});
}

static rc::Gen<Scenario> c09_gen()
{
	auto variant = rc::gen::apply([](int d, int c, int j, int e, int b) { return std::vector<int>{d, c, j, e, b}; },
	                              rc::gen::weightedElement<int>({{2, 0}, {1, 1}, {1, 2}, {1, 3}, {1, 4}, {1, 7}}), rc::gen::weightedElement<int>({{3, 0}, {2, 1}, {1, 2}, {1, 3}, {1, 5}, {1, 17}}),
	                              rng(-1, 7), rc::gen::weightedElement<int>({{2, 0}, {1, 1}, {1, 2}, {1, 3}}),
	                              rc::gen::weightedElement<int>({{2, 0}, {1, 1}, {1, 2}, {1, 3}, {1, 4}, {2, 5}}));
	return rc::gen::apply([](std::vector<int> transports, std::vector<Op> ops, std::vector<std::vector<int>> variants) {
		Scenario sc;
		{ Op o; o.kind = CONNECT; o.a = 0; sc.ops.push_back(o); }
		{ Op o; o.kind = CONNECT; o.a = 1; sc.ops.push_back(o); }
		for (int t : transports) { Op o; o.kind = CONNECT; o.a = t; sc.ops.push_back(o); }
		for (auto &o : ops) {
			if (o.kind == INFO && o.d == 1) {
				for (int i = 0; i < o.a; i++) { Op m; m.kind = MSG; m.conn = o.conn; m.s = "{\"id\":" + std::to_string(7000 + i) + ",\"method\":\"info\",\"params\":{\"filler\":\"" + std::string(400, 'f') + "\"}}"; sc.ops.push_back(m); }
				continue;
			}
			sc.ops.push_back(o);
		}
		sc.variants = variants;
		return sc;
	}, rc::gen::resize(2, rc::gen::container<std::vector<int>>(rng(0, 3))), rc::gen::container<std::vector<Op>>(c09_op()), rc::gen::container<std::vector<std::vector<int>>>(3, variant));
}

int main(int argc, char **argv)
{
	Campaign c;
	c.prop = "C09";
	c.rules = {"model/", "C09/", "output/", "serve/"};
	c.opt.baseline_check = false;
	c.opt.hygiene_check = false;
	c.opt.replica_check = false;
	c.nontrivial = [](const Verdict &vd, const Scenario &sc) {
		auto g = [&](const char *k) { auto it = vd.stat.find(k); return it == vd.stat.end() ? 0L : it->second; };
		bool varied = false; for (auto &v : sc.variants) if (v[0] || v[1] || v[3] || (v.size() > 4 && v[4])) varied = true;
		return varied && g("msgs_sent") >= 3;
	};
	c.extra = [](Campaign &cc, const Scenario &base, const CaseResult &r0) {
		std::vector<Failure> out;
		for (auto &v : base.variants) {
			if (v.size() < 4) continue;
			Scenario sv = base; sv.variants.clear();
			sv.dribble = v[0]; sv.chunk_all = v[1]; sv.junk_all = v[2]; sv.early_prefix = v[3]; sv.batching = v.size() > 4 ? v[4] : 0;
			if (sv.batching) sv.early_prefix = 0; // (the two schedule dimensions are explored separately)
			if (sv.dribble == base.dribble && sv.chunk_all == base.chunk_all && sv.junk_all == base.junk_all && sv.early_prefix == base.early_prefix && sv.batching == base.batching) continue;
			CaseResult rv = run_case(sv, cc.opt, cc.setup);
			cc.evaluations++;
			if (rv.timed_out) { cc.timeouts++; continue; }
			std::string tag = "schedule {dribble=" + std::to_string(v[0]) + ",chunk=" + std::to_string(v[1]) + ",junk=" + std::to_string(v[2]) + ",early_prefix=" + std::to_string(v[3]) + ",batching=" + std::to_string(sv.batching) + "}";
			if (rv.crashed) { out.push_back({rv.crash_sig, tag + "\n" + rv.stderr_text.substr(0, 3000)}); break; }
			for (auto &x : rv.vd.v) if (x.rule.compare(0, 13, "inconclusive/") != 0 && cc.rule_relevant(x.rule)) { out.push_back({x.rule, tag + ": " + x.detail}); break; }
			if (!out.empty()) break;
			if (rv.vd.transcripts != r0.vd.transcripts) {
				std::string d;
				for (size_t i = 0; i < std::max(rv.vd.transcripts.size(), r0.vd.transcripts.size()); i++) {
					std::string a = i < r0.vd.transcripts.size() ? r0.vd.transcripts[i] : "<none>", b = i < rv.vd.transcripts.size() ? rv.vd.transcripts[i] : "<none>";
					if (a != b) { d = "base: " + a.substr(0, 500) + " | variant: " + b.substr(0, 500); break; }
				}
				out.push_back({"C09/output-depends-on-segmentation", tag + ": " + d});
				break;
			}
			cc.stat_sum["variants_compared"]++;
		}
		return out;
	};
	return run_main(argc, argv, c, c09_gen());
}
