// C08 — access control: visibility and set/call rights follow authenticated groups only.
#include "../fw/rcmain.hpp"
#include <crypt.h>
using namespace drv;
using namespace scen;

struct UserSpec { std::vector<int> fg, sg, cg; int hash; bool admin, readonly; int omit; }; // omit: bit i set = the i-th group list is absent from the user's auth object

static std::string group_name(int i) { return "g" + std::to_string(i); }
static js::Value groups_json(const std::vector<int> &g, int universe)
{
	js::Value a = js::Value::arr();
	for (int x : g) a.push(js::Value::str(group_name(((x % universe) + universe) % universe)));
	return a;
}

static std::string hash_password(const std::string &pw, int method, int idx)
{
	static const char *salts[] = {"ab", "$1$saltsalt$", "Zx", "$1$12345678$", "$5$rounds=1000$saltstring$", "$6$rounds=1000$saltstring$"};
	std::string salt = salts[method % 6];
	if (method % 6 == 0 || method % 6 == 2) { salt[0] = (char)('a' + idx % 26); }
	struct crypt_data cd; cd.initialized = 0;
	const char *h = crypt_r(pw.c_str(), salt.c_str(), &cd);
	return h ? h : "";
}

static rc::Gen<UserSpec> user_gen(int universe)
{
	auto gs = rc::gen::resize(4, rc::gen::container<std::vector<int>>(rng(0, universe)));
	return rc::gen::apply([](std::vector<int> f, std::vector<int> s, std::vector<int> c, int h, bool a, bool r, int omit) { return UserSpec{f, s, c, h, a, r, omit}; },
	                      gs, gs, gs, rc::gen::weightedElement<int>({{4, 0}, {4, 1}, {2, 2}, {2, 3}, {1, 4}, {1, 5}}), rc::gen::arbitrary<bool>(), rc::gen::arbitrary<bool>(),
	                      rc::gen::weightedElement<int>({{5, 0}, {1, 1}, {1, 2}, {1, 4}, {1, 6}, {1, 3}, {1, 7}}));
}

static rc::Gen<Op> c08_op()
{
	auto conn = rng(0, 6);
	auto path = rng(0, 6);
	auto val = rng(0, 15);
	auto jn = nojoin();
	auto aim = rc::gen::element<int>(0, 2, 2);
	return rc::gen::weightedOneOf<Op>({
	    {6, rc::gen::apply([](int conn, int path, int val, int acc, int idm) { Op o; o.kind = ADD; o.conn = conn; o.a = path; o.b = val; o.v = {acc}; o.idm = idm; return o; },
	                       conn, path, rc::gen::weightedOneOf<int>({{3, val}, {2, rc::gen::just(-1)}}), rng(0, 8), idmode())},
	    {2, op_gen(CHANGE, conn, path, val, aim, zero(), idmode(), jn)},
	    {1, op_gen(REMOVE, conn, path, zero(), aim, zero(), idmode(), jn)},
	    {6, op_gen(AUTH, conn, rng(0, 6), rc::gen::weightedElement<int>({{6, 0}, {2, 1}, {1, 2}}), zero(), zero(), idmode(), jn)},
	    // a credential-carrying message that is not valid JSON (d = 1..: expanded by c08_gen): the connection ends, and nothing of it may be logged or echoed
	    {2, op_gen(AUTH, conn, rng(0, 6), zero(), zero(), rng(1, 9), zero(), nojoin())},
	    {5, op_gen(FETCH, conn, rng(0, 4), rng(0, 4), zero(), zero(), idmode(), jn)},
	    {2, op_gen(UNFETCH, conn, rng(0, 4), zero(), zero(), zero(), idmode(), jn)},
	    {5, op_gen(GET, conn, zero(), rng(0, 4), zero(), zero(), idmode(), jn)},
	    {4, op_gen(SET, conn, path, val, aim, zero(), idmode(), jn)},
	    {4, op_gen(CALL, conn, path, val, aim, zero(), idmode(), jn)},
	    {3, op_gen(REPLY, conn, rng(0, 4), rng(0, 2), val, zero(), zero(), jn)},
	    {3, op_gen(CONNECT, zero(), rng(0, 3), rng(0, 4), zero(), zero(), zero(), jn)},
	    {1, op_gen(END, conn, rng(0, 2), zero(), zero(), zero(), zero(), jn)},
	});
}

static rc::Gen<Scenario> c08_gen()
{
	return rc::gen::mapcat(rc::gen::weightedElement<int>({{3, 3}, {3, 6}, {1, 32}}), [](int universe) {
		return rc::gen::apply([universe](std::vector<UserSpec> users, std::vector<std::vector<int>> accs, std::vector<int> transports, std::vector<Op> ops, int fill, bool with_cred, int origin0) {
			Scenario sc;
			static const int fills[] = {0x00, 0xFF, 0xBE, 0x55, 0x01, 0x80};
			sc.malloc_fill = fills[fill % 6];
			if (users.empty()) users.push_back(UserSpec{{0}, {0}, {0}, 0, false, false, 0});
			if (with_cred) {
				js::Value root = js::Value::obj(), us = js::Value::obj();
				for (size_t i = 0; i < users.size() && i < 6; i++) {
					std::string name = "user" + std::to_string(i), pw = "Pw-" + std::to_string(i) + "-sEcReT" + std::to_string(i * 7 + 3);
					js::Value u = js::Value::obj();
					u.set("password", js::Value::str(hash_password(pw, users[i].hash, (int)i)));
					if (users[i].admin) u.set("admin", js::Value::boolean(true));
					if (users[i].readonly) u.set("readonly", js::Value::boolean(true));
					js::Value auth = js::Value::obj();
					std::vector<int> fg = users[i].fg, sg = users[i].sg, cg = users[i].cg;
					if (universe == 32 && i == 0) { fg.clear(); for (int g = 0; g < 32; g++) fg.push_back(g); } // all 32 group bits in use
					if (!(users[i].omit & 1)) auth.set("fetchGroups", groups_json(fg, universe));
					if (!(users[i].omit & 2)) auth.set("setGroups", groups_json(sg, universe));
					if (!(users[i].omit & 4)) auth.set("callGroups", groups_json(cg, universe));
					u.set("auth", auth);
					us.set(name, u);
					sc.users.push_back(name); sc.passwords.push_back(pw);
				}
				root.set("users", us);
				sc.cred = js::dump(root);
			}
			sc.accesses.push_back(""); // index 0 = no access member
			for (auto &a : accs) {
				js::Value acc = js::Value::obj();
				std::vector<int> f, s, c;
				for (size_t i = 0; i < a.size(); i++) (i % 3 == 0 ? f : i % 3 == 1 ? s : c).push_back(a[i]);
				acc.set("fetchGroups", groups_json(f, universe + 1)); // universe+1: sometimes a group nobody holds
				acc.set("setGroups", groups_json(s, universe + 1)); acc.set("callGroups", groups_json(c, universe + 1));
				sc.accesses.push_back(js::dump(acc));
			}
			{ Op o; o.kind = CONNECT; o.a = 0; o.b = origin0; sc.ops.push_back(o); }
			for (int t : transports) { Op o; o.kind = CONNECT; o.a = t % 3; o.b = t / 3; sc.ops.push_back(o); }
			for (auto &o : ops) {
				if (o.kind == AUTH && o.d > 0) {
					std::string user = sc.users.empty() ? "nobody" : sc.users[(size_t)o.a % sc.users.size()], pw = sc.passwords.empty() ? "Pw-x-sEcReT0" : sc.passwords[(size_t)o.a % sc.passwords.size()];
					if (sc.passwords.empty()) sc.passwords.push_back(pw); // (scanned for in everything written or logged)
					std::string head = std::string("{\"id\":77,\"method\":\"") + (o.d % 2 ? "authenticate" : "passwd") + "\",\"params\":{\"user\":\"" + user + "\",\"password\":\"" + pw + "\"";
					// (only texts that are broken before the value is complete: what follows a complete value is not looked at by the daemon's parser)
					static const char *tails[] = {"", "},}", ";}}", "}", " \"x\"}}", ",}}"};
					Op m; m.kind = MSG; m.conn = o.conn; m.s = head + tails[(size_t)o.d % 6];
					sc.ops.push_back(m);
					continue;
				}
				sc.ops.push_back(o);
			}
			return sc;
		}, rc::gen::resize(5, rc::gen::container<std::vector<UserSpec>>(user_gen(universe))),
		   rc::gen::resize(6, rc::gen::container<std::vector<std::vector<int>>>(rc::gen::resize(6, rc::gen::container<std::vector<int>>(rng(0, universe + 1))))),
		   rc::gen::resize(4, rc::gen::container<std::vector<int>>(rng(0, 12))), rc::gen::container<std::vector<Op>>(c08_op()), rng(0, 6),
		   rc::gen::weightedElement<bool>({{5, true}, {1, false}}), rng(0, 4));
	});
}

int main(int argc, char **argv)
{
	Campaign c;
	c.prop = "C08";
	c.rules = {"model/", "C01/", "C08/", "output/", "serve/"};
	c.opt.baseline_check = false;
	c.opt.hygiene_check = false;
	c.nontrivial = [](const Verdict &vd, const Scenario &sc) {
		auto g = [&](const char *k) { auto it = vd.stat.find(k); return it == vd.stat.end() ? 0L : it->second; };
		if (sc.variant == "local") return g("m_add_from_remote") >= 1 && g("m_add_from_local") >= 1;
		return !sc.cred.empty() && sc.users.size() >= 2 && g("m_auth_ok") >= 1 && (g("invisible_pairs") >= 1 || g("m_route_denied") >= 1) && g("m_unauth_requests") >= 1;
	};
	c.setup = [](World &w) {
		w.custom_check = [](World &ww) {
			// secrets: no password (right or attempted) in anything the daemon wrote or logged
			simk::Kernel &k = simk::K();
			for (auto &pw : ww.sc.passwords) {
				for (auto &l : k.logs) if (l.find(pw) != std::string::npos) ww.vd.add("C08/secret-in-log", "a password appears in log line: " + l.substr(0, 120));
				for (auto &c : k.conns) if (c.out.find(pw) != std::string::npos) ww.vd.add("C08/secret-in-output", "a password appears in bytes sent to a client");
			}
			// bookkeeping for the non-triviality rule
			long inv = 0;
			for (auto &e : ww.m.elems) for (auto &p : ww.m.peers) if (p.alive && p.authed && !ww.m.visible(e.second, p)) inv++;
			if (inv > ww.vd.stat["invisible_pairs"]) ww.vd.stat["invisible_pairs"] = inv;
		};
		long unauth = 0, al = 0, ar = 0;
		(void)unauth; (void)al; (void)ar;
	};
	return run_main(argc, argv, c, c08_gen());
}
