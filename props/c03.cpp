// C03 — routed set/call: delivered once to the owner, answered once to the caller.
#include "../fw/rcmain.hpp"
using namespace drv;
using namespace scen;

static rc::Gen<Op> c03_op()
{
	auto conn = rng(0, 7);
	auto path = rc::gen::weightedOneOf<int>({{5, rng(0, 2)}, {2, rng(0, 6)}});
	auto val = rng(0, 15);
	auto tmo = rc::gen::weightedElement<int>({{6, 0}, {2, 1}, {2, 2}, {1, 3}, {1, 9}, {1, 10}});
	auto jn = rc::gen::arbitrary<bool>();
	return rc::gen::weightedOneOf<Op>({
	    {4, op_gen(ADD, conn, path, rc::gen::weightedOneOf<int>({{3, val}, {2, rc::gen::just(-1)}}), rc::gen::weightedElement<int>({{8, 0}, {1, 1}}), tmo, idmode(), jn)},
	    {2, op_gen(REMOVE, conn, path, zero(), rc::gen::element<int>(0, 2, 2), zero(), idmode(), jn)},
	    {6, op_gen(SET, conn, path, val, rc::gen::element<int>(0, 2, 2), tmo, idmode_long(), jn)},
	    {6, op_gen(CALL, conn, path, rc::gen::weightedOneOf<int>({{3, val}, {1, rc::gen::just(-1)}}), rc::gen::element<int>(0, 2, 2), tmo, idmode_long(), jn)},
	    {8, op_gen(REPLY, conn, rng(0, 6), rc::gen::weightedElement<int>({{6, 0}, {3, 1}, {1, 2}, {1, 3}, {1, 4}}), val, zero(), zero(), jn)},
	    {2, op_gen(ADVANCE, zero(), rng(0, 13), zero(), zero(), zero(), zero(), nojoin())},
	    {1, op_gen(CONNECT, zero(), rng(0, 3), rng(0, 4), zero(), zero(), zero(), nojoin())},
	    {2, op_gen(END, conn, rng(0, 3), zero(), zero(), zero(), zero(), jn)},
	    {1, op_gen(INFO, conn, zero(), zero(), zero(), zero(), idmode(), jn)},
	    // more requests in flight to one owner than its routing table can hold (c = 64: expanded by c03_gen): each surplus one gets an error
	    {1, op_gen(CALL, conn, rc::gen::just(1), val, rc::gen::just(64), zero(), zero(), nojoin())},
	    {1, op_gen(FETCH, conn, rng(0, 4), rng(0, 10), zero(), zero(), idmode(), jn)},
	});
}

static rc::Gen<Scenario> c03_gen()
{
	return rc::gen::apply([](std::vector<int> transports, std::vector<Op> ops, int order_seed, int end) {
		Scenario sc;
		for (int t : transports) { Op o; o.kind = CONNECT; o.a = t; sc.ops.push_back(o); }
		// every scenario starts with something routable
		{ Op o; o.kind = ADD; o.conn = 0; o.a = 0; o.b = 1; sc.ops.push_back(o); }
		{ Op o; o.kind = ADD; o.conn = 0; o.a = 1; o.b = -1; sc.ops.push_back(o); }
		for (auto &o : ops) {
			if (o.kind == CALL && o.c == 64) {
				for (int i = 0; i < 72; i++) { Op c = o; c.c = 0; c.join = false; c.idm = (i % 2) ? ID_STR : ID_NUM; sc.ops.push_back(c); } // (single steps: a refusal is judged per request)
				continue;
			}
			sc.ops.push_back(o);
		}
		sc.order_seed = order_seed; sc.end = end;
		return sc;
	}, rc::gen::container<std::vector<int>>(rng(0, 3)).as("transports"), rc::gen::container<std::vector<Op>>(c03_op()), rng(0, 4), rng(0, 2));
}

int main(int argc, char **argv)
{
	Campaign c;
	c.prop = "C03";
	c.rules = {"model/", "C03/", "output/", "serve/"};
	c.opt.baseline_check = false;
	c.opt.hygiene_check = false;
	c.opt.replica_check = false;
	c.nontrivial = [](const Verdict &vd, const Scenario &) {
		auto g = [&](const char *k) { auto it = vd.stat.find(k); return it == vd.stat.end() ? 0L : it->second; };
		return g("m_routed") >= 1 && (g("m_reply_forwarded") + g("m_timeout") + g("m_shutdown_answer")) >= 1;
	};
	return run_main(argc, argv, c, c03_gen());
}
