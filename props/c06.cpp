// C06 — no input on any endpoint can crash the daemon or corrupt memory.
// rapidcheck part: hostile but structured traffic (near-valid JSON-RPC with hostile member shapes, names, lengths, duplicates,
// deep nesting and huge numbers; HTTP requests; WebSocket frames of every opcode/flag/length combination; raw byte blobs) on
// all endpoints, interleaved, under random read chunking, split deliveries and event orders. A witness connection that only
// sends valid requests must be served throughout. (The coverage-guided byte-level part is modules/c06_fuzz.cpp.)
#include "../fw/rcmain.hpp"
using namespace drv;
using namespace scen;

static rc::Gen<std::string> hostile_json(int depth);

static rc::Gen<std::string> key_gen()
{
	return rc::gen::weightedOneOf<std::string>({
	    {12, rc::gen::element<std::string>("id", "method", "params", "path", "value", "timeout", "fetchOnly", "access", "fetchGroups", "setGroups", "callGroups", "name", "user", "password",
	                                       "caseInsensitive", "equals", "equalsNot", "startsWith", "endsWith", "contains", "containsAllOf", "result", "error", "args", "match", "event")},
	    {2, rc::gen::element<std::string>("ID", "Method", "PARAMS", "Path", "", " id", "id\\u0000", "\\u00e9", "caseinsensitive")},
	    {1, rc::gen::map(rng(1, 120), [](int n) { return std::string((size_t)n, 'k'); })},
	});
}

static rc::Gen<std::string> scalar_gen()
{
	return rc::gen::weightedOneOf<std::string>({
	    {4, rc::gen::element<std::string>("0", "1", "-1", "1.5", "1e308", "1e309", "-1e400", "1e-400", "0.001", "0.0009", "99999999999999999999999", "-0", "2147483648", "4294967296", "1E+2", "0e0")},
	    {4, rc::gen::element<std::string>("\"\"", "\"a\"", "\"add\"", "\"info\"", "\"fetch\"", "\"set\"", "\"call\"", "\"change\"", "\"remove\"", "\"get\"", "\"config\"", "\"authenticate\"", "\"passwd\"", "\"unfetch\"",
	                                      "\"\\u0000\"", "\"\\ud800\"", "\"\\ud83d\\ude00\"", "\"\\\"\\\\\\/\\b\\f\\n\\r\\t\"", "\"\xc3\xa9\"", "\"\xff\xfe\"", "\"}]\"")},
	    {2, rc::gen::element<std::string>("true", "false", "null")},
	    {1, rc::gen::map(rng(1, 300), [](int n) { return "\"" + std::string((size_t)n, 's') + "\""; })},
	});
}

static rc::Gen<std::string> hostile_json(int depth)
{
	if (depth <= 0) return scalar_gen();
	return rc::gen::weightedOneOf<std::string>({
	    {3, scalar_gen()},
	    {4, rc::gen::map(rc::gen::resize(5, rc::gen::container<std::vector<std::pair<std::string, std::string>>>(rc::gen::pair(key_gen(), rc::gen::lazy([depth]() { return hostile_json(depth - 1); })))),
	                     [](std::vector<std::pair<std::string, std::string>> ms) { std::string s = "{"; for (size_t i = 0; i < ms.size(); i++) { if (i) s += ","; s += "\"" + ms[i].first + "\":" + ms[i].second; } return s + "}"; })},
	    {2, rc::gen::map(rc::gen::resize(4, rc::gen::container<std::vector<std::string>>(rc::gen::lazy([depth]() { return hostile_json(depth - 1); }))),
	                     [](std::vector<std::string> es) { std::string s = "["; for (size_t i = 0; i < es.size(); i++) { if (i) s += ","; s += es[i]; } return s + "]"; })},
	    {1, rc::gen::map(rng(1, 240), [](int n) { return std::string((size_t)n, '[') + std::string((size_t)n, ']'); })},
	    {1, rc::gen::map(rng(1, 120), [](int n) { std::string s; for (int i = 0; i < n; i++) s += "{\"a\":"; s += "1"; for (int i = 0; i < n; i++) s += "}"; return s; })},
	});
}

// a request object whose skeleton is right and whose members are hostile
static rc::Gen<std::string> near_valid()
{
	return rc::gen::apply([](std::string id, std::string method, std::string params, int shape, std::string extra_key, std::string extra) {
		std::string s = "{";
		if (shape % 5 != 0) s += "\"id\":" + id + ",";
		s += "\"method\":" + method;
		if (shape % 7 != 0) s += ",\"params\":" + params;
		if (shape % 3 == 0) s += ",\"" + extra_key + "\":" + extra;
		if (shape % 11 == 0) s += ",\"params\":" + params;
		return s + "}"; },
		scalar_gen(), rc::gen::element<std::string>("\"add\"", "\"remove\"", "\"change\"", "\"set\"", "\"call\"", "\"fetch\"", "\"unfetch\"", "\"get\"", "\"config\"", "\"info\"", "\"authenticate\"", "\"passwd\"", "\"nope\"", "5"),
		hostile_json(3), rng(0, 1000), key_gen(), hostile_json(1));
}

static rc::Gen<Op> c06_op()
{
	auto conn = rng(1, 7);
	auto jn = rc::gen::arbitrary<bool>();
	auto bytes = rc::gen::resize(40, rc::gen::container<std::string>(rc::gen::arbitrary<char>()));
	auto mkmsg = [](int conn, std::string s, bool join) { Op o; o.kind = MSG; o.conn = conn; o.s = s; o.join = join; return o; };
	return rc::gen::weightedOneOf<Op>({
	    {10, rc::gen::apply(mkmsg, conn, near_valid(), jn)},
	    {4, rc::gen::apply(mkmsg, conn, hostile_json(4), jn)},
	    {2, rc::gen::apply([mkmsg](int conn, std::vector<std::string> es, bool join) { std::string s = "["; for (size_t i = 0; i < es.size(); i++) { if (i) s += ","; s += es[i]; } return mkmsg(conn, s + "]", join); },
	                       conn, rc::gen::resize(3, rc::gen::container<std::vector<std::string>>(near_valid())), jn)},
	    // well-formed element requests with one hostile member (timeouts of every magnitude, odd paths, values, access lists)
	    {4, rc::gen::apply([mkmsg](int conn, int which, std::string hostile, bool join) {
	            static const char *fmt[] = {"{\"id\":7,\"method\":\"add\",\"params\":{\"path\":\"p%d\",\"value\":1,\"timeout\":%s}}", "{\"id\":7,\"method\":\"set\",\"params\":{\"path\":\"p0\",\"value\":2,\"timeout\":%s}}",
	                                        "{\"id\":7,\"method\":\"call\",\"params\":{\"path\":\"m0\",\"args\":%s,\"timeout\":0.5}}", "{\"id\":7,\"method\":\"add\",\"params\":{\"path\":\"m%d\",\"access\":%s}}",
	                                        "{\"id\":7,\"method\":\"fetch\",\"params\":{\"id\":%s,\"path\":{\"startsWith\":\"p\"}}}", "{\"id\":7,\"method\":\"change\",\"params\":{\"path\":\"p0\",\"value\":%s}}"};
	            char buf[1200]; int w = which % 6;
	            if (w == 0 || w == 3) snprintf(buf, sizeof buf, fmt[w], which % 3, hostile.substr(0, 300).c_str()); else snprintf(buf, sizeof buf, fmt[w], hostile.substr(0, 300).c_str());
	            return mkmsg(conn, buf, join); }, conn, rng(0, 60), hostile_json(2), jn)},
	    // a long peer name followed by something that makes the daemon log about this peer
	    {2, rc::gen::apply([mkmsg](int conn, int n, bool join) { return mkmsg(conn, "{\"id\":1,\"method\":\"config\",\"params\":{\"name\":\"" + std::string((size_t)n, 'N') + "\"}}", join); }, conn, rc::gen::element<int>(10, 90, 97, 98, 99, 100, 150, 200, 400), jn)},
	    {3, rc::gen::apply([](int conn, std::string s, bool join) { Op o; o.kind = BYTES; o.conn = conn; o.s = s; o.join = join; return o; }, conn, bytes, jn)},
	    {2, rc::gen::apply([](int conn, int which, bool join) { Op o; o.kind = BYTES; o.conn = conn; o.join = join;
	            static const std::vector<std::string> http = {"GET / HTTP/1.1\r\n\r\n", "GET /api/jet/ HTTP/1.1\r\n", "Sec-WebSocket-Key: x\r\n", "\r\n\r\n", "POST /api/jet/ HTTP/1.1\r\nContent-Length: 5\r\n\r\nhello",
	                "GET /api/jet/ HTTP/1.1\r\nUpgrade: websocket\r\nConnection: Upgrade\r\nSec-WebSocket-Version: 13\r\nSec-WebSocket-Key: dGhlIHNhbXBsZSBub25jZQ==\r\nSec-WebSocket-Extensions: permessage-deflate; client_max_window_bits=8; server_max_window_bits=9; a; b; c; d\r\n\r\n",
	                std::string(4, '\0'), std::string("\x00\x00\x02\x01", 4), std::string(4, '\xff')};
	            o.s = http[(size_t)which % http.size()]; return o; }, conn, rng(0, 9), jn)},
	    {6, rc::gen::apply([](int conn, int opcode, int flags, int lenenc, int mk, std::string payload, bool join) { Op o; o.kind = WSFRAME; o.conn = conn; o.a = opcode; o.b = flags; o.c = lenenc; o.d = mk; o.s = payload; o.join = join; return o; },
	                       conn, rng(0, 16), rng(0, 32), rng(0, 3), rng(0, 100000), rc::gen::weightedOneOf<std::string>({{2, bytes}, {2, near_valid()}, {1, rc::gen::map(rng(0, 520), [](int n) { return std::string((size_t)n, 'w'); })}}), jn)},
	    {2, op_gen(PARTIAL, conn, rng(0, 60), rng(0, 6), zero(), zero(), zero(), jn)},
	    {2, op_gen(PREFIX, conn, rng(0, 7), zero(), zero(), zero(), zero(), jn)},
	    {3, op_gen(CONNECT, zero(), rng(0, 3), rng(0, 4), zero(), zero(), zero(), nojoin())},
	    {2, op_gen(END, conn, rng(0, 3), zero(), zero(), zero(), zero(), jn)},
	    {1, rc::gen::apply([](int conn, std::vector<int> v) { Op o; o.kind = CHUNK; o.conn = conn; o.v = v; return o; }, conn, rc::gen::container<std::vector<int>>(rng(1, 9)))},
	    {1, op_gen(JUNK, conn, rng(0, 7), zero(), zero(), zero(), zero(), jn)},
	    {2, op_gen(ADVANCE, zero(), rng(0, 13), zero(), zero(), zero(), zero(), nojoin())},
	    // ordinary well-formed traffic between the hostile connections: elements, fetches, routed requests and their (late) replies
	    {4, op_gen(ADD, conn, rng(0, 12), rc::gen::weightedOneOf<int>({{3, rng(0, 15)}, {2, rc::gen::just(-1)}}), zero(), rc::gen::weightedElement<int>({{6, 0}, {1, 1}, {1, 2}}), idmode(), jn)},
	    {3, op_gen(REMOVE, conn, rng(0, 12), zero(), rc::gen::element<int>(0, 2, 2), zero(), idmode(), jn)},
	    {2, op_gen(FETCH, conn, rng(0, 4), rng(0, 10), zero(), zero(), idmode(), jn)},
	    {4, op_gen(SET, conn, rng(0, 4), rng(0, 15), rc::gen::element<int>(0, 2, 2), rc::gen::weightedElement<int>({{6, 0}, {1, 1}, {1, 2}}), idmode(), jn)},
	    {4, op_gen(CALL, conn, rng(0, 4), rng(0, 15), rc::gen::element<int>(0, 2, 2), rc::gen::weightedElement<int>({{6, 0}, {1, 1}, {1, 2}}), idmode(), jn)},
	    {5, op_gen(REPLY, conn, rng(0, 4), rng(0, 5), rng(0, 15), zero(), zero(), jn)},
	    // the witness: valid requests only
	    {6, op_gen(INFO, zero(), zero(), zero(), zero(), zero(), rc::gen::element<int>(ID_NUM, ID_STR), jn)},
	});
}

static rc::Gen<Scenario> c06_gen()
{
	return rc::gen::apply([](std::vector<int> transports, std::vector<Op> ops, int order_seed, int end, int dribble, int chunk) {
		Scenario sc;
		{ Op o; o.kind = CONNECT; o.a = 0; sc.ops.push_back(o); } // conn 0 = witness
		{ Op o; o.kind = CONNECT; o.a = 1; sc.ops.push_back(o); }
		{ Op o; o.kind = CONNECT; o.a = 2; sc.ops.push_back(o); }
		for (int t : transports) { Op o; o.kind = CONNECT; o.a = t; sc.ops.push_back(o); }
		for (auto &o : ops) sc.ops.push_back(o);
		sc.order_seed = order_seed; sc.end = end; sc.dribble = dribble; sc.chunk_all = chunk;
		return sc;
	}, rc::gen::resize(3, rc::gen::container<std::vector<int>>(rng(0, 3))), rc::gen::container<std::vector<Op>>(c06_op()), rng(0, 4), rng(0, 2),
	   rc::gen::weightedElement<int>({{3, 0}, {1, 1}, {1, 2}}), rc::gen::weightedElement<int>({{4, 0}, {1, 1}, {1, 3}, {1, 7}}));
}

int main(int argc, char **argv)
{
	Campaign c;
	c.prop = "C06";
	c.rules = {"C06/", "serve/", "output/"};
	c.opt.model_check = false;
	c.opt.replica_check = false;
	c.opt.baseline_check = false;
	c.opt.hygiene_check = false;
	c.opt.ws_check = false;
	c.opt.reserve_conn0 = true;
	c.nontrivial = [](const Verdict &vd, const Scenario &) {
		auto g = [&](const char *k) { auto it = vd.stat.find(k); return it == vd.stat.end() ? 0L : it->second; };
		return g("op_msg") + g("op_wsframe") >= 2;
	};
	c.setup = [](World &w) {
		// the witness (connection 0) sends only valid requests: it must stay open and every request must be answered
		w.custom_check = [](World &ww) {
			if (ww.cc.empty()) return;
			simk::Kernel &k = simk::K();
			world::CConn &wc = ww.cc[0];
			if (k.conns[wc.kc].daemon_closed && !wc.client_ended) ww.vd.add("C06/witness-dropped", "the connection that sent only valid requests was closed by the daemon");
			long answered = 0; for (auto &m : wc.msgs) if (m.is_obj() && m.has("result") && m.has("id")) answered++;
			long sent = 0; for (auto &s : ww.sent_ids) if (s.first.first == 0) sent += s.second;
			if (!wc.client_ended && !k.conns[wc.kc].daemon_closed && answered != sent) ww.vd.add("C06/witness-unanswered", std::to_string(sent) + " valid requests, " + std::to_string(answered) + " answers");
		};
	};
	return run_main(argc, argv, c, c06_gen());
}
