// C15 — any single allocation failure is survived without crash, leak or corruption.
// For every generated scenario: one clean run counts the allocations N performed after the idle baseline, then N runs fail
// allocation k = 0..N-1 in turn (single-fault enumeration), plus random double faults. In the `small` variant (64 KB heap cap)
// ordinary client activity additionally makes the cap itself refuse.
#include "../fw/rcmain.hpp"
using namespace drv;
using namespace scen;

static rc::Gen<Op> c15_op()
{
	auto conn = rng(0, 5);
	auto path = rng(0, 5);
	auto val = rng(0, 15);
	auto jn = rc::gen::arbitrary<bool>();
	auto aim = rc::gen::element<int>(0, 2, 2);
	auto tmo = rc::gen::weightedElement<int>({{6, 0}, {1, 1}, {1, 2}});
	return rc::gen::weightedOneOf<Op>({
	    {4, op_gen(ADD, conn, path, rc::gen::weightedOneOf<int>({{3, val}, {2, rc::gen::just(-1)}}), zero(), tmo, idmode(), jn)},
	    {1, op_gen(REMOVE, conn, path, zero(), aim, zero(), idmode(), jn)},
	    {2, op_gen(CHANGE, conn, path, val, aim, zero(), idmode(), jn)},
	    {3, op_gen(FETCH, conn, rng(0, 4), rng(0, 10), zero(), zero(), idmode(), jn)},
	    {1, op_gen(UNFETCH, conn, rng(0, 4), zero(), zero(), zero(), idmode(), jn)},
	    {2, op_gen(GET, conn, zero(), rng(0, 10), zero(), zero(), idmode(), jn)},
	    {3, op_gen(SET, conn, path, val, aim, tmo, idmode(), jn)},
	    {3, op_gen(CALL, conn, path, val, aim, tmo, idmode(), jn)},
	    {3, op_gen(REPLY, conn, rng(0, 4), rng(0, 5), val, zero(), zero(), jn)},
	    {1, op_gen(CONFIG, conn, rng(0, 5), zero(), zero(), zero(), idmode(), jn)},
	    {1, op_gen(INFO, conn, zero(), zero(), zero(), zero(), idmode(), jn)},
	    {1, op_gen(AUTH, conn, rng(0, 2), rng(0, 3), zero(), zero(), idmode(), jn)},
	    {1, op_gen(MUTREQ, conn, rng(0, 9), path, rng(0, 12), val, idmode(), jn)},
	    {1, op_gen(BATCH, conn, rng(0, 4), zero(), zero(), zero(), zero(), jn)},
	    {1, op_gen(ADVANCE, zero(), rng(0, 13), zero(), zero(), zero(), zero(), nojoin())},
	    {2, op_gen(CONNECT, zero(), rng(0, 3), rng(0, 4), zero(), zero(), zero(), nojoin())},
	    {2, op_gen(END, conn, rng(0, 3), zero(), zero(), zero(), zero(), jn)},
	    {1, rc::gen::apply([](int conn, int w) { Op o; o.kind = MSG; o.conn = conn; static const char *bad[] = {"}{", "[1,2", "{\"id\":1,\"method\":\"inf"}; o.s = bad[w % 3]; return o; }, conn, rng(0, 3))},
	});
}

static const char *CRED = "{\"users\":{\"u0\":{\"password\":\"$1$saltsalt$.YOui1omsu7RD6.BcwPK//\",\"auth\":{\"fetchGroups\":[\"g1\"],\"setGroups\":[\"g1\"],\"callGroups\":[\"g1\"]}},"
                          "\"u1\":{\"password\":\"abWAcrLcu.e2o\",\"admin\":true,\"auth\":{\"fetchGroups\":[\"g1\",\"g2\"],\"setGroups\":[\"g2\"],\"callGroups\":[\"g2\"]}}}}";

static rc::Gen<Scenario> c15_gen()
{
	return rc::gen::apply([](std::vector<int> transports, std::vector<Op> ops, int end, bool cred, std::vector<int> doubles) {
		Scenario sc;
		if (cred) { sc.cred = CRED; sc.users = {"u0", "u1"}; sc.passwords = {"secret-zero", "secret-one"}; }
		{ Op o; o.kind = CONNECT; o.a = 0; sc.ops.push_back(o); }
		{ Op o; o.kind = CONNECT; o.a = 1; sc.ops.push_back(o); }
		for (int t : transports) { Op o; o.kind = CONNECT; o.a = t; sc.ops.push_back(o); }
		{ Op o; o.kind = ADD; o.conn = 0; o.a = 0; o.b = 1; sc.ops.push_back(o); }
		{ Op o; o.kind = ADD; o.conn = 0; o.a = 1; o.b = -1; sc.ops.push_back(o); }
		// four subscriptions fill the initial fetcher table of every element; the fifth one (below) makes it grow
		for (int f = 0; f < 4; f++) { Op o; o.kind = FETCH; o.conn = 1; o.a = f; o.b = 0; sc.ops.push_back(o); }
		// one connection authenticates twice (the second time as another user)
		if (cred) { Op a; a.kind = AUTH; a.conn = 0; a.a = 0; a.b = 0; sc.ops.push_back(a); Op b = a; b.a = 1; sc.ops.push_back(b); } // (connection 0 holds no fetch: a peer that fetched may not authenticate)
		// a rule whose matcher copies several strings (containsAllOf), for fetch and for get
		{ Op o; o.kind = FETCH; o.conn = 1; o.a = 5; o.b = 7; sc.ops.push_back(o); }
		{ Op o; o.kind = GET; o.conn = 1; o.b = 7; sc.ops.push_back(o); }
		// every scenario holds complete routed exchanges: answered with a result, answered with an error, and left to time out
		{ Op o; o.kind = SET; o.conn = 1; o.a = 0; o.b = 3; sc.ops.push_back(o); }
		{ Op o; o.kind = REPLY; o.conn = 0; o.a = 0; o.b = RP_RESULT; o.c = 4; sc.ops.push_back(o); }
		{ Op o; o.kind = CALL; o.conn = 1; o.a = 1; o.b = 5; o.idm = ID_STR; sc.ops.push_back(o); }
		{ Op o; o.kind = REPLY; o.conn = 0; o.a = 0; o.b = RP_ERROR; o.c = 2; sc.ops.push_back(o); }
		for (auto &o : ops) sc.ops.push_back(o);
		{ Op o; o.kind = CALL; o.conn = 1; o.a = 1; o.b = -1; o.d = 2; sc.ops.push_back(o); }
		{ Op o; o.kind = ADVANCE; o.a = 9; sc.ops.push_back(o); }
		{ Op o; o.kind = FETCH; o.conn = 1; o.a = 4; o.b = 0; sc.ops.push_back(o); }
		{ Op o; o.kind = CHANGE; o.conn = 0; o.a = 0; o.b = 2; sc.ops.push_back(o); }
		{ Op o; o.kind = UNFETCH; o.conn = 1; o.a = 4; sc.ops.push_back(o); }
		{ Op o; o.kind = REMOVE; o.conn = 0; o.a = 0; sc.ops.push_back(o); }
		// the scenario ends with live elements whose last change may have been the faulted request: the census (fw/world.hpp) looks at them
		{ Op o; o.kind = ADD; o.conn = 0; o.a = 0; o.b = 4; sc.ops.push_back(o); }
		{ Op o; o.kind = CHANGE; o.conn = 0; o.a = 0; o.b = 9; sc.ops.push_back(o); }
		sc.end = end;
		sc.fail_allocs = doubles; // carried in the scenario: seeds of the random double-fault runs
		return sc;
	}, rc::gen::resize(2, rc::gen::container<std::vector<int>>(rng(0, 3))), rc::gen::resize(14, rc::gen::container<std::vector<Op>>(c15_op())), rng(0, 2), rc::gen::arbitrary<bool>(),
	   rc::gen::container<std::vector<int>>(4, rng(0, 100000)));
}

static std::string site_of(const CaseResult &r)
{
	for (auto &t : r.vd.transcripts) if (t.compare(0, 10, "ALLOCSITE ") == 0) return symbolize_site(t.substr(10));
	std::string all; size_t p = 0;
	while ((p = r.stderr_text.find("ALLOC-FAIL-SITE ", p)) != std::string::npos) { size_t e = r.stderr_text.find('\n', p); all += (all.empty() ? "" : " + ") + r.stderr_text.substr(p + 16, e - p - 16); p = e == std::string::npos ? r.stderr_text.size() : e; }
	return all.empty() ? "?" : symbolize_site(all);
}

int main(int argc, char **argv)
{
	Campaign c;
	c.prop = "C15";
	c.rules = {"C15/", "C07/", "serve/", "C06/", "output/"};
	c.alias = {{"C07/heap-not-at-baseline", "C15/leak"}, {"C07/blocks-not-at-baseline", "C15/leak"}, {"C07/memory-left-at-exit", "C15/leak"}, {"C07/accounting-nonzero-at-exit", "C15/leak"},
	           {"C07/peers-not-at-baseline", "C15/peer-left"}, {"C07/descriptor", "C15/descriptor-left"}, {"C07/timers", "C15/timer-left"},
	           {"serve/probe-unanswered", "C15/not-serving"}, {"C06/daemon-exited-early", "C15/daemon-exited"}};
	c.opt.model_check = false;
	c.opt.replica_check = false;
	c.opt.ws_check = false;
	c.opt.accounting_check = true;
	c.opt.census = true;
	c.noshrink = true;
	c.nontrivial = [](const Verdict &vd, const Scenario &) { auto it = vd.stat.find("allocs_after_baseline"); return it != vd.stat.end() && it->second >= 20; };
	c.extra = [](Campaign &cc, const Scenario &base0, const CaseResult &r0) {
		std::vector<Failure> out;
		auto it = r0.vd.stat.find("allocs_after_baseline");
		long N = it == r0.vd.stat.end() ? 0 : it->second;
		Scenario base = base0; std::vector<int> seeds = base.fail_allocs; base.fail_allocs.clear();
		if (base0.fail_alloc >= 0) return out; // a replayed single-fault case: already executed as such
		std::set<std::string> reported;
		auto run_one = [&](Scenario &sv, const std::string &tag) {
			CaseResult rv = run_case(sv, cc.opt, cc.setup);
			cc.evaluations++;
			if (rv.timed_out) { cc.timeouts++; return; }
			auto hit = rv.vd.stat.find("alloc_failures_hit");
			bool reached = rv.crashed || (hit != rv.vd.stat.end() && hit->second > 0);
			if (reached) cc.stat_sum["faults_reached"]++;
			std::string site = site_of(rv);
			std::string which;
			if (rv.crashed) {
				std::string sig = rv.crash_sig + " @alloc " + site;
				if (cc.is_known(sig, &which)) { cc.known_hits[which]++; return; }
				if (getenv("C15_SURVEY")) { printf("SURVEY %s\n", sig.c_str()); fflush(stdout); return; }
				if (reported.insert(sig).second) { out.push_back({sig, tag + "\n" + rv.stderr_text.substr(0, 2500)}); cc.last_failing = sv; }
				return;
			}
			for (auto &x : rv.vd.v) {
				if (x.rule.compare(0, 13, "inconclusive/") == 0 || !cc.rule_relevant(x.rule)) continue;
				std::string sig = cc.aliased(x.rule) + " @alloc " + site;
				if (cc.is_known(sig + " | " + x.detail, &which)) { cc.known_hits[which]++; continue; }
				if (getenv("C15_SURVEY")) { printf("SURVEY %s\n", sig.c_str()); if (getenv("C15_SURVEY")[0] == '2' && sig.find("AddItemToObject") == std::string::npos) printf("  DETAIL %s | %s | %s\n", tag.c_str(), x.detail.c_str(), js::dump(scen::to_json(sv)).c_str()); fflush(stdout); break; }
				if (reported.insert(sig).second) { out.push_back({sig, tag + ": " + x.detail}); cc.last_failing = sv; }
				break;
			}
		};
		for (long k = 0; k < N && out.size() < 3 && !budget::over(); k++) { Scenario sv = base; sv.fail_alloc = (int)k; run_one(sv, "allocation #" + std::to_string(k) + " of " + std::to_string(N) + " fails"); }
		for (size_t i = 0; i + 1 < seeds.size() && N > 2 && out.empty(); i += 2) { Scenario sv = base; sv.fail_alloc = seeds[i] % N; sv.fail_allocs = {(int)(seeds[i + 1] % N)}; run_one(sv, "two allocations fail"); }
		cc.stat_sum["single_fault_runs"] += N;
		return out;
	};
	return run_main(argc, argv, c, c15_gen());
}
