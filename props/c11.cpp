// C11 — a slow, failing or hostile peer harms only itself.
#include "../fw/rcmain.hpp"
using namespace drv;
using namespace scen;

static rc::Gen<Op> c11_op()
{
	auto conn = rng(1, 6);
	auto path = rng(0, 5);
	auto val = rng(0, 15);
	auto no = nojoin();
	auto aim = rc::gen::element<int>(0, 2, 2);
	auto tmo = rc::gen::weightedElement<int>({{8, 0}, {1, 2}, {1, 3}});
	return rc::gen::weightedOneOf<Op>({
	    {6, op_gen(ADD, conn, path, rc::gen::weightedOneOf<int>({{3, val}, {2, rc::gen::just(-1)}}), zero(), tmo, idmode(), no)},
	    {2, op_gen(REMOVE, conn, path, zero(), aim, zero(), idmode(), no)},
	    {5, op_gen(CHANGE, conn, path, val, aim, zero(), idmode(), no)},
	    {4, op_gen(FETCH, conn, rng(0, 4), rng(0, 10), zero(), zero(), idmode(), no)},
	    {1, op_gen(UNFETCH, conn, rng(0, 4), zero(), zero(), zero(), idmode(), no)},
	    {4, op_gen(SET, conn, path, val, aim, tmo, idmode(), no)},
	    {4, op_gen(CALL, conn, path, val, aim, tmo, idmode(), no)},
	    {4, op_gen(REPLY, conn, rng(0, 4), rng(0, 2), val, zero(), zero(), no)},
	    {1, op_gen(INFO, conn, zero(), zero(), zero(), zero(), idmode(), no)},
	    {1, op_gen(ADVANCE, zero(), rng(0, 13), zero(), zero(), zero(), zero(), no)},
	    {2, op_gen(CONNECT, zero(), rng(0, 3), rng(0, 4), zero(), zero(), zero(), no)},
	    {1, op_gen(END, conn, rng(0, 3), zero(), zero(), zero(), zero(), no)},
	    // the faults
	    {3, rc::gen::apply([](int conn, int kind) { Op o; o.kind = WPLAN; o.conn = conn; o.v = {kind}; return o; }, conn, rc::gen::element<int>(simk::W_EAGAIN, simk::W_ERR, simk::W_ERR + 4, simk::W_PARTIAL + 4 * 3, simk::W_PARTIAL + 4 * 40))},
	    {1, op_gen(DRAIN, conn, zero(), zero(), zero(), zero(), zero(), no)},
	    {1, rc::gen::apply([](int conn, int which) { Op o; o.kind = MSG; o.conn = conn; static const char *bad[] = {"}{", "[1,2", "nul", "{\"id\":1,\"method\":\"inf"}; o.s = bad[which % 4]; return o; }, conn, rng(0, 4))},
	    {2, rc::gen::apply([](int nth, int err) { Op o; o.kind = FAULT; o.a = 0; o.b = nth; o.c = err; return o; }, rng(0, 2), rc::gen::element<int>(0, 1, 2, 3, 8, 9))}, // errno values accept(2) documents for a single failed attempt
	    // a connection attempt that dies in accept() while a healthy one waits behind it in the same listen queue (d = 1: expanded by c11_gen)
	    {2, rc::gen::apply([](int err, int transport, int nth) { Op o; o.kind = FAULT; o.a = 0; o.b = nth; o.c = err; o.d = 1 + transport; return o; }, rc::gen::element<int>(0, 9, 2), rng(0, 3), rng(0, 2))},
	});
}

static rc::Gen<Scenario> c11_gen()
{
	return rc::gen::apply([](std::vector<int> transports, std::vector<Op> ops, int faulty_first) {
		Scenario sc;
		// conn 0: healthy observer (fetch-all + get after every step): "requests of other peers still take effect"
		{ Op o; o.kind = CONNECT; o.a = 0; sc.ops.push_back(o); }
		// a faulty subscriber that registers *before* the healthy ones, so that it sits first in the subscriber tables
		{ Op o; o.kind = CONNECT; o.a = faulty_first % 3; sc.ops.push_back(o); }
		{ Op o; o.kind = FETCH; o.conn = 1; o.a = 0; o.b = 0; sc.ops.push_back(o); }
		{ Op o; o.kind = FETCH; o.conn = 0; o.a = 1; o.b = 0; sc.ops.push_back(o); }
		{ Op o; o.kind = CONNECT; o.a = 0; sc.ops.push_back(o); }
		for (int t : transports) { Op o; o.kind = CONNECT; o.a = t; sc.ops.push_back(o); }
		{ Op o; o.kind = ADD; o.conn = 2; o.a = 0; o.b = 1; sc.ops.push_back(o); }
		{ Op o; o.kind = ADD; o.conn = 2; o.a = 1; o.b = -1; sc.ops.push_back(o); }
		if (faulty_first >= 3) { Op o; o.kind = WPLAN; o.conn = 1; o.v = {faulty_first % 2 ? simk::W_EAGAIN : simk::W_ERR}; sc.ops.push_back(o); }
		for (auto &o : ops) {
			if (o.kind == FAULT && o.d > 0) {
				// both attempts reach the same listening socket before the daemon runs again; the newest connection then asks for service
				int t = o.d - 1; Op f = o; f.d = 0; sc.ops.push_back(f);
				{ Op c1; c1.kind = CONNECT; c1.a = t; sc.ops.push_back(c1); }
				{ Op c2; c2.kind = CONNECT; c2.a = t; c2.join = true; sc.ops.push_back(c2); }
				{ Op g; g.kind = GET; g.conn = 0; g.b = 0; sc.ops.push_back(g); }
				continue;
			}
			sc.ops.push_back(o);
			Op g; g.kind = GET; g.conn = 0; g.b = 0; sc.ops.push_back(g);
		}
		return sc;
	}, rc::gen::resize(3, rc::gen::container<std::vector<int>>(rng(0, 3))), rc::gen::container<std::vector<Op>>(c11_op()), rng(0, 12));
}

int main(int argc, char **argv)
{
	Campaign c;
	c.prop = "C11";
	c.rules = {"C02/", "model/", "C01/", "C06/daemon-exited-early", "output/", "serve/"};
	c.opt.baseline_check = false;
	c.opt.gap_check = true;
	c.opt.hygiene_check = false;
	c.nontrivial = [](const Verdict &vd, const Scenario &) {
		auto g = [&](const char *k) { auto it = vd.stat.find(k); return it == vd.stat.end() ? 0L : it->second; };
		return g("steps_touching_faulty") >= 1 || (vd.labels.count("fault:accept") && g("op_connect") >= 4);
	};
	return run_main(argc, argv, c, c11_gen());
}
