// C01 — fetch gives every subscriber an exact, ordered replica of matching elements.
#include "../fw/rcmain.hpp"
using namespace drv;
using namespace scen;

static rc::Gen<Op> c01_op()
{
	auto conn = rng(0, 6);
	auto path = rng(0, 8);
	auto val = rng(0, 15);
	return rc::gen::weightedOneOf<Op>({
	    {6, op_gen(ADD, conn, path, rc::gen::weightedOneOf<int>({{5, val}, {1, rc::gen::just(-1)}}), rc::gen::weightedElement<int>({{5, 0}, {1, 1}, {2, 2}}), zero(), idmode(), rc::gen::arbitrary<bool>())},
	    {3, op_gen(REMOVE, conn, path, zero(), rc::gen::element<int>(0, 2), zero(), idmode(), rc::gen::arbitrary<bool>())},
	    {5, op_gen(CHANGE, conn, path, val, rc::gen::element<int>(0, 2), zero(), idmode(), rc::gen::arbitrary<bool>())},
	    {5, op_gen(FETCH, conn, rng(0, 4), rng(0, 10), zero(), zero(), idmode(), rc::gen::arbitrary<bool>())},
	    {2, op_gen(UNFETCH, conn, rng(0, 4), zero(), zero(), zero(), idmode(), rc::gen::arbitrary<bool>())},
	    {1, op_gen(CONNECT, zero(), rng(0, 3), rng(0, 4), zero(), zero(), zero(), nojoin())},
	    {1, op_gen(END, conn, rng(0, 3), zero(), zero(), zero(), zero(), rc::gen::arbitrary<bool>())},
	});
}

static rc::Gen<Scenario> c01_gen()
{
	return rc::gen::apply([](std::vector<int> transports, std::vector<Op> ops, int order_seed, int end) {
		Scenario sc;
		for (int t : transports) { Op o; o.kind = CONNECT; o.a = t; sc.ops.push_back(o); }
		for (auto &o : ops) sc.ops.push_back(o);
		sc.order_seed = order_seed; sc.end = end;
		return sc;
	}, rc::gen::container<std::vector<int>>(rng(0, 3)).as("transports"), rc::gen::container<std::vector<Op>>(c01_op()), rng(0, 4), rng(0, 2));
}

int main(int argc, char **argv)
{
	Campaign c;
	c.prop = "C01";
	c.rules = {"model/", "C01/", "output/", "serve/"};
	c.opt.baseline_check = false;
	c.opt.hygiene_check = false;
	c.nontrivial = [](const Verdict &vd, const Scenario &) {
		auto g = [&](const char *k) { auto it = vd.stat.find(k); return it == vd.stat.end() ? 0L : it->second; };
		return g("m_notify") >= 2 && g("m_fetch") >= 1 && g("replica_compared_nonempty") >= 1;
	};
	return run_main(argc, argv, c, c01_gen());
}
