// C05 — a connection's end removes every trace of the peer and disturbs nobody else.
#include "../fw/rcmain.hpp"
using namespace drv;
using namespace scen;

static rc::Gen<Op> wsframe_gen(rc::Gen<int> conn)
{
	return rc::gen::apply([](int conn, int opcode, int flags, int lenenc, int mk, std::string payload, bool join) {
		Op o; o.kind = WSFRAME; o.conn = conn; o.a = opcode; o.b = flags; o.c = lenenc; o.d = mk; o.s = payload; o.join = join; return o; },
		conn, rc::gen::weightedElement<int>({{2, 0}, {4, 1}, {2, 2}, {1, 3}, {4, 8}, {3, 9}, {2, 10}, {1, 11}}),
		rc::gen::weightedElement<int>({{8, 3}, {2, 2}, {2, 1}, {1, 7}, {1, 0}}), rng(0, 3), rng(0, 1000),
		rc::gen::weightedOneOf<std::string>({{3, rc::gen::just(std::string("{\"id\":7,\"method\":\"info\"}"))}, {2, rc::gen::just(std::string("\x03\xe8"))}, {1, rc::gen::just(std::string(""))}, {1, rc::gen::just(std::string(130, 'x'))}, {1, rc::gen::just(std::string("\x03"))}}),
		rc::gen::arbitrary<bool>());
}

static rc::Gen<Op> c05_op()
{
	auto conn = rng(0, 6);
	auto path = rng(0, 5);
	auto val = rng(0, 15);
	auto jn = rc::gen::arbitrary<bool>();
	auto aim = rc::gen::element<int>(0, 2, 2);
	auto tmo = rc::gen::weightedElement<int>({{8, 0}, {1, 2}, {1, 3}});
	return rc::gen::weightedOneOf<Op>({
	    {5, op_gen(ADD, conn, path, rc::gen::weightedOneOf<int>({{3, val}, {2, rc::gen::just(-1)}}), zero(), tmo, idmode(), jn)},
	    {1, op_gen(REMOVE, conn, path, zero(), aim, zero(), idmode(), jn)},
	    {2, op_gen(CHANGE, conn, path, val, aim, zero(), idmode(), jn)},
	    {4, op_gen(FETCH, conn, rng(0, 4), rng(0, 10), zero(), zero(), idmode(), jn)},
	    {4, op_gen(SET, conn, path, val, aim, tmo, idmode(), jn)},
	    {4, op_gen(CALL, conn, path, val, aim, tmo, idmode(), jn)},
	    {3, op_gen(REPLY, conn, rng(0, 4), rng(0, 5), val, zero(), zero(), jn)},
	    {1, op_gen(INFO, conn, zero(), zero(), zero(), zero(), idmode(), jn)},
	    {1, op_gen(ADVANCE, zero(), rng(0, 13), zero(), zero(), zero(), zero(), nojoin())},
	    {2, op_gen(CONNECT, zero(), rng(0, 3), rng(0, 4), zero(), zero(), zero(), nojoin())},
	    {6, op_gen(END, conn, rng(0, 3), zero(), zero(), zero(), zero(), jn)},
	    {3, op_gen(PARTIAL, conn, rng(0, 60), rng(0, 6), zero(), zero(), zero(), jn)},
	    {2, rc::gen::apply([](int conn, int which, bool join) { Op o; o.kind = MSG; o.conn = conn; o.join = join;
	            static const char *bad[] = {"{\"id\":1,\"method\":\"inf", "}{", "nul", "[1,2", "\"just a string\"", "12", "{\"id\":1,\"method\":\"info\"},"};
	            o.s = bad[which % 6]; return o; }, conn, rng(0, 6), jn)},
	    {3, wsframe_gen(conn)},
	    // a peer with unsent buffered output: it stops reading, its responses fill the daemon's write buffer, and then one more frame
	    // (a response, or the pong for a ping) cannot be queued - the daemon drops the connection from inside its send path
	    // (d = 1: expanded by c05_gen)
	    {2, op_gen(WPLAN, rc::gen::element<int>(1, 1, 2, 0), rng(0, 3), rng(28, 36), zero(), rc::gen::just(1), zero(), nojoin())},
	});
}

static rc::Gen<Scenario> c05_gen()
{
	return rc::gen::apply([](std::vector<int> transports, std::vector<Op> ops, int order_seed, int end) {
		Scenario sc;
		{ Op o; o.kind = CONNECT; o.a = 0; sc.ops.push_back(o); }
		{ Op o; o.kind = CONNECT; o.a = 1; sc.ops.push_back(o); }
		for (int t : transports) { Op o; o.kind = CONNECT; o.a = t; sc.ops.push_back(o); }
		{ Op o; o.kind = FETCH; o.conn = 0; o.a = 0; o.b = 0; sc.ops.push_back(o); }
		{ Op o; o.kind = ADD; o.conn = 1; o.a = 0; o.b = 1; sc.ops.push_back(o); }
		{ Op o; o.kind = ADD; o.conn = 1; o.a = 1; o.b = -1; sc.ops.push_back(o); }
		for (auto &o : ops) {
			if (o.kind == WPLAN && o.d == 1) {
				{ Op w; w.kind = WPLAN; w.conn = o.conn; w.v = {2}; sc.ops.push_back(w); } // the kernel takes nothing any more
				for (int i = 0; i < o.b; i++) { Op r; r.kind = INFO; r.conn = o.conn; sc.ops.push_back(r); }
				if (o.a == 0) { Op p; p.kind = WSFRAME; p.conn = o.conn; p.a = 9; p.b = 3; p.s = std::string(125, 'p'); sc.ops.push_back(p); }
				if (o.a == 1) { Op p; p.kind = WSFRAME; p.conn = o.conn; p.a = 9; p.b = 3; p.s = "x"; sc.ops.push_back(p); }
				for (int i = 0; i < 4; i++) { Op r; r.kind = INFO; r.conn = o.conn; sc.ops.push_back(r); }
				continue;
			}
			sc.ops.push_back(o);
		}
		sc.order_seed = order_seed; sc.end = end;
		return sc;
	}, rc::gen::resize(4, rc::gen::container<std::vector<int>>(rng(0, 3))), rc::gen::container<std::vector<Op>>(c05_op()), rng(0, 4), rng(0, 2));
}

int main(int argc, char **argv)
{
	Campaign c;
	c.prop = "C05";
	c.rules = {"model/", "C01/", "C07/hygiene", "output/", "serve/"};
	c.opt.baseline_check = false;
	c.nontrivial = [](const Verdict &vd, const Scenario &) {
		auto g = [&](const char *k) { auto it = vd.stat.find(k); return it == vd.stat.end() ? 0L : it->second; };
		return (g("m_elem_removed_by_disconnect") + g("m_shutdown_answer") + g("m_own_inflight_dropped")) >= 1;
	};
	return run_main(argc, argv, c, c05_gen());
}
